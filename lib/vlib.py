"""Shared machinery of the /verif checks: scratch copies of /repo with the harness injected,
TLC runs, trace validation, evidence files, known findings, verdict printing.

Exit codes of a check: 0 property held on everything explored; 1 violation (a VIOLATION line was
printed); 2 infrastructure problem (never a verdict)."""
import atexit
import json
import os
import re
import shutil
import subprocess
import sys
import tempfile
import time

VERIF = os.path.dirname(os.path.dirname(os.path.abspath(__file__)))
REPO = os.environ.get("VERIF_REPO", "/repo")
TLAJARS = "/opt/veriftools/tla/tla2tools.jar:/opt/veriftools/tla/CommunityModules-deps.jar"
NCPU = os.cpu_count() or 4

GOENV = dict(os.environ, GOFLAGS="-mod=mod", GOPROXY="off", GOSUMDB="off", GOTOOLCHAIN="local",
             CGO_ENABLED=os.environ.get("CGO_ENABLED", "1"))


class Infra(Exception):
    """Infrastructure failure: exit 2, never a verdict."""


def log(*a):
    print(*a, file=sys.stderr, flush=True)


class Scratch:
    """A throw-away directory holding a copy of /repo with the harness injected, a copy of the
    specifications and every file a run produces.  Removed at exit (kept with VERIF_KEEP=1)."""

    def __init__(self, tag):
        root = os.environ.get("VERIF_SCRATCH") or "/var/tmp"
        os.makedirs(root, exist_ok=True)
        self.dir = tempfile.mkdtemp(prefix="hidi-verif.%s." % tag, dir=root)
        self.repo = os.path.join(self.dir, "repo")
        self.spec = os.path.join(self.dir, "spec")
        self.bin = os.path.join(self.dir, "bin")
        os.makedirs(self.bin)
        shutil.copytree(os.path.join(VERIF, "spec"), self.spec)
        atexit.register(self.cleanup)
        self._built = {}
        self._n = 0

    def cleanup(self):
        if os.environ.get("VERIF_KEEP") == "1":
            log("scratch kept:", self.dir)
            return
        shutil.rmtree(self.dir, ignore_errors=True)

    def path(self, *p):
        return os.path.join(self.dir, *p)

    def copy_repo(self):
        if os.path.isdir(self.repo):
            return
        r = subprocess.run(["rsync", "-a", "--exclude", ".git", REPO + "/", self.repo + "/"])
        if r.returncode != 0:
            raise Infra("rsync of %s failed" % REPO)
        # inject the harness (files tagged //go:build verif); nothing in /repo is touched
        hroot = os.path.join(VERIF, "harness")
        for d, _, files in os.walk(hroot):
            rel = os.path.relpath(d, hroot)
            os.makedirs(os.path.join(self.repo, rel), exist_ok=True)
            for f in files:
                if f.endswith(".overlay"):
                    # replaces the file of the same name in the scratch copy only (alsa cgo stub)
                    shutil.copy2(os.path.join(d, f), os.path.join(self.repo, rel, f[:-len(".overlay")]))
                    continue
                shutil.copy2(os.path.join(d, f), os.path.join(self.repo, rel, f))

    def build(self, pkg="./internal/verif/verifh", name="verifh", race=False, extra_tags=""):
        """Build a harness binary from the scratch copy of the current /repo working tree."""
        key = (pkg, name, race)
        if key in self._built:
            return self._built[key]
        self.copy_repo()
        out = os.path.join(self.bin, name + ("-race" if race else ""))
        cmd = ["go", "build", "-tags", "verif" + (" " + extra_tags if extra_tags else "")]
        if race:
            cmd.append("-race")
        cmd += ["-o", out, pkg]
        t0 = time.time()
        r = subprocess.run(cmd, cwd=self.repo, env=GOENV, stdout=subprocess.PIPE, stderr=subprocess.STDOUT, text=True)
        if r.returncode != 0:
            raise Infra("the working tree (or the harness) does not build:\n" + r.stdout[-4000:])
        log("built %s in %.1fs" % (name, time.time() - t0))
        self._built[key] = out
        return out

    def build_tool(self, name):
        """Build a stand-alone tool from /verif/tools/<name> (no dependency on /repo)."""
        key = ("tool", name)
        if key in self._built:
            return self._built[key]
        out = os.path.join(self.bin, name)
        r = subprocess.run(["go", "build", "-o", out, "."], cwd=os.path.join(VERIF, "tools", name), env=GOENV,
                           stdout=subprocess.PIPE, stderr=subprocess.STDOUT, text=True)
        if r.returncode != 0:
            raise Infra("tool %s does not build:\n%s" % (name, r.stdout[-4000:]))
        self._built[key] = out
        return out

    def fresh(self, prefix):
        self._n += 1
        return os.path.join(self.dir, "%s.%d" % (prefix, self._n))


# ---------------------------------------------------------------------------------------------
# TLC


class TLCResult:
    def __init__(self, rc, outpath, wall):
        self.rc, self.outpath, self.wall = rc, outpath, wall
        self.generated = self.distinct = self.depth = None
        self.error = None
        self.violated = []
        with open(outpath, errors="replace") as f:
            for line in f:
                m = re.match(r"(\d+) states generated, (\d+) distinct states found", line)
                if m:
                    self.generated, self.distinct = int(m.group(1)), int(m.group(2))
                m = re.match(r"The depth of the complete state graph search is (\d+)", line)
                if m:
                    self.depth = int(m.group(1))
                m = re.match(r"Error: Invariant (\S+) is violated", line)
                if m:
                    self.violated.append(m.group(1))
                m = re.match(r"Error: Action property (\S+) is violated", line)
                if m:
                    self.violated.append(m.group(1))
                if line.startswith("Error:") and self.error is None:
                    self.error = line.strip()
        self.completed = self.rc == 0 and self.generated is not None and self.error is None

    def tail(self, n=40):
        with open(self.outpath, errors="replace") as f:
            lines = [x for x in f.read().splitlines() if not re.match(r"^(Parsing|Semantic|Linting) ", x)]
        return "\n".join(lines[-n:])


def run_tlc(scr, module, cfgtext, workers=None, timeout=600, xmx="6g", extra=(), outname=None, simulate=None):
    """Run TLC on spec/<module>.tla inside the scratch copy of the specifications."""
    n = scr.fresh("tlc")
    cfgpath = os.path.join(scr.spec, os.path.basename(n) + ".cfg")
    with open(cfgpath, "w") as f:
        f.write(cfgtext)
    outpath = outname or (n + ".out")
    meta = n + ".meta"
    w = workers or NCPU
    cmd = ["timeout", str(timeout), "java", "-Xss256m", "-Xmx" + xmx, "-XX:+UseParallelGC",
           "-XX:ParallelGCThreads=%d" % max(2, min(w, 8)), "-XX:CICompilerCount=%d" % max(2, min(w, 4)),
           "-cp", TLAJARS, "tlc2.TLC", "-workers", str(w), "-metadir", meta, "-config", cfgpath]
    if simulate:
        cmd += ["-simulate", simulate]
    cmd += list(extra) + [module + ".tla"]
    t0 = time.time()
    with open(outpath, "w") as o:
        r = subprocess.run(cmd, cwd=scr.spec, stdout=o, stderr=subprocess.STDOUT)
    res = TLCResult(r.returncode, outpath, time.time() - t0)
    shutil.rmtree(meta, ignore_errors=True)
    if r.returncode == 124:
        raise Infra("TLC timed out after %ss on %s" % (timeout, module))
    return res


def tla_value(v):
    """Render a Python value as a TLA+ expression (for cfg constants / generated modules)."""
    if isinstance(v, bool):
        return "TRUE" if v else "FALSE"
    if isinstance(v, int):
        return str(v)
    if isinstance(v, str):
        return json.dumps(v)
    if isinstance(v, (list, tuple)):
        return "<<" + ", ".join(tla_value(x) for x in v) + ">>"
    if isinstance(v, (set, frozenset)):
        return "{" + ", ".join(tla_value(x) for x in sorted(v, key=repr)) + "}"
    if isinstance(v, dict):
        if not v:
            return "<<>>"
        return "(" + " @@ ".join("(%s :> %s)" % (tla_value(k), tla_value(x)) for k, x in v.items()) + ")"
    raise TypeError(type(v))


# ---------------------------------------------------------------------------------------------
# trace validation


def validate_trace(scr, trace_module, tracefile, timeout=1800, xmx="6g", constants=""):
    """Validate one ndjson trace with TLC; returns the TRACE-RESULT record printed by the spec."""
    rel = os.path.relpath(tracefile, scr.spec)
    cfg = ("SPECIFICATION TraceSpec\nCONSTANT TraceFile = %s\n%sCHECK_DEADLOCK FALSE\nPOSTCONDITION TraceAccepted\n"
           % (json.dumps(rel), constants))
    res = run_tlc(scr, trace_module, cfg, workers=1, timeout=timeout, xmx=xmx)
    result = None
    with open(res.outpath, errors="replace") as f:
        for line in f:
            if line.startswith('<<"TRACE-RESULT"'):
                m = re.match(r'<<"TRACE-RESULT", (".*")>>\s*$', line)
                if m:
                    result = json.loads(json.loads(m.group(1)))
    if result is None or not res.completed:
        raise Infra("trace validation of %s did not complete:\n%s" % (tracefile, res.tail()))
    result["_tlc"] = {"generated": res.generated, "distinct": res.distinct, "wall": res.wall}
    return result


def validate_traces_parallel(scr, trace_module, tracefiles, timeout=1800, jobs=None, xmx="3g", constants=""):
    """Validate several trace files on separate cores."""
    from concurrent.futures import ThreadPoolExecutor
    jobs = jobs or max(1, min(len(tracefiles), NCPU // 2))
    with ThreadPoolExecutor(max_workers=jobs) as ex:
        return list(ex.map(lambda t: validate_trace(scr, trace_module, t, timeout=timeout, xmx=xmx, constants=constants), tracefiles))


# ---------------------------------------------------------------------------------------------
# evidence, known findings, verdicts


def load_known():
    p = os.path.join(VERIF, "known_findings.json")
    if not os.path.exists(p):
        return []
    with open(p) as f:
        return json.load(f).get("findings", [])


def write_evidence(pid, tier, seed, level, coverage, wall, violations=0, assumptions=()):
    os.makedirs(os.path.join(VERIF, "evidence"), exist_ok=True)
    ev = {"property_id": pid, "tier": tier, "seed": int(seed), "level": level, "coverage": coverage,
          "assumptions": list(assumptions), "wall_s": round(wall, 2), "violations": int(violations)}
    p = os.path.join(VERIF, "evidence", pid + ".json")
    with open(p + ".tmp", "w") as f:
        json.dump(ev, f, indent=1, default=str)
    os.replace(p + ".tmp", p)
    return p


def write_replay(pid, payload):
    d = os.path.join(VERIF, "out", "replays")
    os.makedirs(d, exist_ok=True)
    import hashlib
    body = json.dumps(payload, sort_keys=True, default=str)
    h = hashlib.sha1(body.encode()).hexdigest()[:12]
    p = os.path.join(d, "%s-%s.json" % (pid, h))
    with open(p, "w") as f:
        f.write(body)
    return p


def seed():
    try:
        return int(os.environ.get("VERIF_SEED", "1"))
    except ValueError:
        return 1
