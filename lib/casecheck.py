"""Checks of the function-shaped properties (C09-C12, C20 ...): the specification defines the
function (or the relation of allowed results) over an abstract description; the harness renders
each case, runs the real function and logs the result; TLC judges every logged case
(spec/CaseTrace.tla with the property module's Judge)."""
import json
import os
import re
import time

import vlib
from vlib import Infra, log


def tlc_print(scr, module, tag, constants=""):
    """Run TLC on `module` over a one-line dummy trace and return the JSON value it printed as
    <<"tag", "json">> (constant-level output of the specification, e.g. the case table)."""
    dummy = scr.fresh("dummy") + ".ndjson"
    with open(dummy, "w") as f:
        f.write('{"ev":"nop"}\n')
    rel = os.path.relpath(dummy, scr.spec)
    cfg = "SPECIFICATION TraceSpec\nCONSTANT TraceFile = %s\n%sCHECK_DEADLOCK FALSE\n" % (json.dumps(rel), constants)
    res = vlib.run_tlc(scr, module, cfg, workers=1, timeout=600, xmx="3g")
    out = []
    with open(res.outpath, errors="replace") as f:
        for line in f:
            m = re.match(r'<<"%s", (".*")>>\s*$' % re.escape(tag), line)
            if m:
                out.append(json.loads(json.loads(m.group(1))))
    if not out or not res.completed:
        raise Infra("TLC did not print %s from %s:\n%s" % (tag, module, res.tail()))
    return out[0] if len(out) == 1 else out, res


class CaseOutcome:
    def __init__(self, pid, tier, prefixes):
        self.pid, self.tier, self.prefixes = pid, tier, prefixes
        self.t0 = time.time()
        self.viol = []      # (pred, case line or None)
        self.classes = {}
        self.cases = 0
        self.states = 0
        self.transitions = 0
        self.samples = []
        self.notes = []
        self.extra = {}

    def mine(self, pred):
        return pred.startswith("X_") or any(pred.startswith(p) for p in self.prefixes)

    def add(self, tracefile, res, sample_filter=None):
        with open(tracefile) as f:
            lines = f.read().splitlines()
        self.cases += len(lines)
        self.states += res["_tlc"]["distinct"] or 0
        self.transitions += res["_tlc"]["generated"] or 0
        for name, ln in res["viol"]:
            self.viol.append((name, json.loads(lines[ln - 1]) if ln >= 1 else {"final": True}))
        for c, n in res["branches"].items():
            self.classes[c] = self.classes.get(c, 0) + n
        for x in lines:
            if len(self.samples) >= 6:
                break
            d = json.loads(x)
            if sample_filter is None or sample_filter(d):
                self.samples.append(d)

    def finish(self, level="model_checking", rule="", assumptions=(), known_match=None, distinct=None, exhaustive=False):
        known = [k for k in vlib.load_known() if k.get("property") == self.pid and k.get("status", "open") == "open"]
        new, kn = [], {}
        for pred, case in self.viol:
            if not self.mine(pred):
                continue
            hit = None
            for k in known:
                if k.get("predicate") == pred and known_match and known_match(k.get("scenario", {}), case):
                    hit = k
                    break
            if hit:
                kn.setdefault(hit["id"], [hit, 0])[1] += 1
            else:
                new.append((pred, case))
        for kid, (k, n) in kn.items():
            print("KNOWN-FINDING: property=%s %s (%d occurrences in this run)" % (self.pid, k["text"], n))
        shown = {}
        for pred, case in new:
            shown[pred] = shown.get(pred, 0) + 1
            if shown[pred] > 4:
                continue
            rp = vlib.write_replay(self.pid, {"property": self.pid, "predicate": pred, "case": case})
            print("VIOLATION property=%s replay=%s" % (self.pid, rp))
            print("  predicate %s false for case %s" % (pred, json.dumps(case)[:400]))
        cov = {"states": max(1, self.states), "transitions": max(1, self.transitions),
               "traces_validated_against_impl": self.cases,
               "evaluations": self.cases if "evaluations" not in self.extra else self.extra["evaluations"],
               "distinct_nontrivial": distinct if distinct is not None else self.cases,
               "rule": rule, "samples": self.samples or [["none"]], "exhaustive": exhaustive,
               "case_classes": self.classes, "predicates_judged": sorted(self.prefixes), "notes": self.notes}
        cov.update({k: v for k, v in self.extra.items() if k != "evaluations"})
        vlib.write_evidence(self.pid, self.tier, vlib.seed(), level, cov, time.time() - self.t0, violations=len(new),
                            assumptions=assumptions)
        return 1 if new else 0
