"""C18 driver: prepares hidi-config trees, runs the real start-up upkeep (application binary with the
verif entry HIDI_VERIF_OP=upkeep) under strace, records the file-system mutations and tree
snapshots, injects SIGKILL at the n-th file-system call for crash points."""
import hashlib
import json
import os
import random
import re
import shutil
import subprocess

from vlib import Infra

ROOT = "hidi-config"
BL = "hidi-config/device blacklist.txt"


def load_template(repo):
    """The embedded template tree (cmd/hidi/config.go: go:embed patterns) from the working tree."""
    base = os.path.join(repo, "cmd", "hidi")
    entries = []
    files = {}
    for d, dirs, fs in os.walk(os.path.join(base, ROOT)):
        dirs.sort()
        rel = os.path.relpath(d, base)
        entries.append((rel, "dir"))
        for f in sorted(fs):
            p = os.path.join(rel, f)
            entries.append((p, "file"))
            with open(os.path.join(base, p), "rb") as fh:
                files[p] = fh.read()
    entries.sort(key=lambda e: e[0].split("/"))      # fs.WalkDir order: lexical per directory
    tpl = [{"path": p, "kind": k, "factory": p == ROOT + "/factory" or p.startswith(ROOT + "/factory/")} for p, k in entries]
    return tpl, files


def classify(path, data, files):
    t = files.get(path)
    if t is None:
        return "h:" + hashlib.sha1(data).hexdigest()[:12]
    if data == t:
        return "intact"
    if len(data) == 0:
        return "empty"
    if len(data) < len(t) and t.startswith(data):
        return "partial"
    if len(data) > len(t) and data.startswith(t):
        return "longer"
    if len(data) == len(t):
        return "modified"
    return "h:" + hashlib.sha1(data).hexdigest()[:12]


def in_factory(p):
    return p == ROOT + "/factory" or p.startswith(ROOT + "/factory/")


def snapshot(dirpath, files):
    snap = {}
    for d, dirs, fs in os.walk(os.path.join(dirpath, ROOT)):
        rel = os.path.relpath(d, dirpath)
        snap[rel] = "dir"
        for f in fs:
            p = os.path.join(rel, f)
            with open(os.path.join(dirpath, p), "rb") as fh:
                snap[p] = classify(p, fh.read(), files)
    return snap


def build_tree(dirpath, spec, files):
    """spec: path -> ("dir" | bytes); parents are created as needed."""
    for p, v in sorted(spec.items()):
        full = os.path.join(dirpath, p)
        if v == "dir":
            os.makedirs(full, exist_ok=True)
        else:
            os.makedirs(os.path.dirname(full), exist_ok=True)
            with open(full, "wb") as f:
                f.write(v)


def variant(state, t, rng):
    if state == "intact":
        return t
    if state == "empty":
        return b""
    if state == "partial":
        return t[:rng.randrange(1, max(2, len(t)))] if len(t) > 1 else b""
    if state == "modified":
        if not t:
            return t
        i = rng.randrange(len(t))
        return t[:i] + bytes([t[i] ^ 0x20 or 1]) + t[i + 1:]
    if state == "longer":
        return t + b"\n# local tail that the template does not have\nfoo = 1\n"
    raise ValueError(state)


FSTATES = ["absent", "intact", "empty", "partial", "modified", "longer"]


def gen_trees(tpl, files, seed, tier):
    """Initial trees: the directory missing; each single factory file in each state; factory
    directories missing; seeded combinations; user files, custom hidi.toml / blacklist and extra
    files everywhere.  Returns list of (name, spec)."""
    rng = random.Random(seed * 523 + 1)
    ffiles = [e["path"] for e in tpl if e["factory"] and e["kind"] == "file"]
    fdirs = [e["path"] for e in tpl if e["factory"] and e["kind"] == "dir"]
    user_extra = {
        ROOT + "/user/keyboard/my kbd.toml": b"collision_mode = \"off\"\n# mine\n",
        ROOT + "/user/gamepad/pad.toml": b"# my pad\n" * 20,
        ROOT + "/user/notes.txt": b"remember\n",
        ROOT + "/factory/gamepad/zz_local.toml": b"# extra file in a factory directory\n",
        ROOT + "/factory/keyboard/.hidden": b"x",
        ROOT + "/extra/deep/file.bin": bytes(range(256)),
    }
    def base(states, missing_dirs=(), bl="custom", ht="custom", users=True):
        spec = {ROOT: "dir"}
        for e in tpl:
            p = e["path"]
            if any(p == d or p.startswith(d + "/") for d in missing_dirs):
                continue
            if e["kind"] == "dir":
                spec[p] = "dir"
            elif e["factory"]:
                st = states.get(p, "intact")
                if st != "absent":
                    spec[p] = variant(st, files[p], rng)
            elif p == BL:
                if bl == "custom":
                    spec[p] = b"# my blacklist\nBus: 0x0003, Vendor: 0x1111, Product: 0x2222, Version: 0x0001\n"
                elif bl == "intact":
                    spec[p] = files[p]
            elif p == ROOT + "/hidi.toml":
                if ht == "custom":
                    spec[p] = b"[HIDI]\npool_rate = 250\ndiscovery_rate = 1\nstabilization_period = 100\n"
                elif ht == "intact":
                    spec[p] = files[p]
            else:
                spec[p] = files[p] if rng.random() < 0.5 else b"changed by the user\n"
        if users:
            for p, v in user_extra.items():
                if not any(p.startswith(d + "/") for d in missing_dirs):
                    spec[p] = v
        return spec
    trees = [("no-directory", {})]
    trees.append(("all-intact", base({})))
    trees.append(("all-intact-no-blacklist", base({}, bl="absent")))
    for f in ffiles:
        for st in FSTATES:
            if st != "intact":
                trees.append(("%s=%s" % (os.path.basename(f), st), base({f: st}, bl=rng.choice(["custom", "absent", "intact"]))))
    for d in fdirs:
        trees.append(("missing-dir:" + d, base({}, missing_dirs=[d], bl=rng.choice(["custom", "absent"]))))
    # a missing directory together with a damaged file that the walk reaches later (state carried from one into the other)
    for d in fdirs:
        for f in ffiles:
            if f > d and not f.startswith(d + "/"):
                for st in ("longer", "modified"):
                    trees.append(("missing-dir:%s+%s=%s" % (os.path.basename(d), os.path.basename(f), st),
                                  base({f: st}, missing_dirs=[d], bl=rng.choice(["custom", "absent"]))))
    trees.append(("only-root", {ROOT: "dir"}))
    trees.append(("only-user", {ROOT: "dir", ROOT + "/user": "dir", ROOT + "/user/keyboard/k.toml": b"k"}))
    n = 40 if tier == "quick" else 600
    for i in range(n):
        states = {f: rng.choice(FSTATES) for f in ffiles}
        md = [d for d in fdirs if rng.random() < 0.12]
        trees.append(("random-%d" % i, base(states, missing_dirs=md, bl=rng.choice(["custom", "absent", "intact"]),
                                           ht=rng.choice(["custom", "intact", "absent"]), users=rng.random() < 0.8)))
    if tier == "thorough":   # truncation at every byte of one factory file
        f = min(ffiles, key=lambda x: len(files[x]))
        for i in range(1, len(files[f])):
            spec = base({})
            spec[f] = files[f][:i]
            trees.append(("%s-truncated@%d" % (os.path.basename(f), i), spec))
    return trees


MUT_RE = re.compile(r'^(?:\d+\s+)?(\w+)\((.*)\)\s+=\s+(-?\d+|\?)')


def parse_strace(log, cwd):
    """File-system mutations under hidi-config, in order: [{'op', 'path'}]."""
    muts = []
    def rel(p):
        p = p.strip('"')
        if p.startswith(cwd + "/"):
            p = p[len(cwd) + 1:]
        return p
    with open(log, errors="replace") as f:
        for line in f:
            m = MUT_RE.match(line)
            if not m:
                continue
            name, args, ret = m.group(1), m.group(2), m.group(3)
            if ret.startswith("-") or ret == "?":
                continue
            if name in ("mkdir", "mkdirat"):
                pm = re.search(r'"((?:[^"\\]|\\.)*)"', args)
                if pm and ROOT in pm.group(1):
                    muts.append({"op": "mkdir", "path": rel(pm.group(1))})
            elif name in ("openat", "open", "creat"):
                pm = re.search(r'"((?:[^"\\]|\\.)*)"', args)
                if not pm or ROOT not in pm.group(1):
                    continue
                if "O_TRUNC" in args:
                    muts.append({"op": "trunc", "path": rel(pm.group(1))})
                elif "O_CREAT" in args:
                    muts.append({"op": "create", "path": rel(pm.group(1))})
                elif "O_WRONLY" in args or "O_RDWR" in args or "O_APPEND" in args:
                    muts.append({"op": "openw", "path": rel(pm.group(1))})
            elif name in ("write", "pwrite64", "writev"):
                pm = re.match(r'\d+<([^>]*)>', args)
                if pm and ("/" + ROOT + "/") in pm.group(1) + "/":
                    muts.append({"op": "write", "path": rel(pm.group(1))})
            elif name in ("unlink", "unlinkat", "rename", "renameat", "renameat2", "truncate", "ftruncate", "rmdir", "chmod",
                          "fchmod", "fchmodat", "link", "linkat", "symlink", "symlinkat"):
                paths = re.findall(r'"((?:[^"\\]|\\.)*)"', args) + re.findall(r'<([^>]*)>', args)
                for p in paths:
                    if ROOT in p:
                        muts.append({"op": name, "path": rel(p)})
    for m in muts:      # classified here (TLC has no string prefix test): is the path inside the factory directory?
        m["fac"] = m["path"] == ROOT + "/factory" or m["path"].startswith(ROOT + "/factory/")
    # consecutive writes to one file are one write of the model
    out = []
    for m in muts:
        if out and m["op"] == "write" and out[-1] == m:
            continue
        out.append(m)
    return out


TRACE_SET = ("trace=openat,open,creat,mkdir,mkdirat,write,pwrite64,writev,unlink,unlinkat,rename,renameat,renameat2,truncate,"
             "ftruncate,rmdir,chmod,fchmod,fchmodat,link,linkat,symlink,symlinkat")


INJECT_SET = "openat,mkdirat,mkdir,write,rename,renameat,renameat2,unlink,unlinkat,truncate,ftruncate"


def run_upkeep(hidi, cwd, log, kill_at=None):
    cmd = ["strace", "-f", "-y", "-o", log, "-e", TRACE_SET]
    if kill_at is not None:
        cmd += ["-e", "inject=%s:signal=SIGKILL:when=%d" % kill_at]     # (syscall name, its ordinal)
    cmd += [hidi]
    r = subprocess.run(cmd, cwd=cwd, env=dict(os.environ, HIDI_VERIF_OP="upkeep", GOMAXPROCS="1"), stdout=subprocess.PIPE, stderr=subprocess.PIPE,
                       text=True, timeout=60)
    killed = r.returncode in (-9, 137)
    return r.returncode, killed, r.stdout + r.stderr


def count_fs_calls(log):
    """strace's when=n counts every syscall of the set separately, per thread.  Returns, for the thread that performs
    the mutations of hidi-config (GOMAXPROCS=1: the main thread), the sequence of its file-system calls as
    (syscall name, ordinal of that syscall) and the indices into it of the mutating calls."""
    seq, cnt, muts = {}, {}, {}
    with open(log, errors="replace") as f:
        for line in f:
            m = re.match(r'^(\d+)\s+(openat|mkdirat|mkdir|write|rename|renameat|renameat2|unlink|unlinkat|truncate|ftruncate)\((.*)', line)
            if not m:
                continue
            pid, name, args = m.group(1), m.group(2), m.group(3)
            cnt[(pid, name)] = cnt.get((pid, name), 0) + 1
            seq.setdefault(pid, []).append((name, cnt[(pid, name)]))
            if ROOT not in args:
                continue
            if name in ("mkdir", "mkdirat") or (name == "openat" and ("O_CREAT" in args or "O_TRUNC" in args or "O_WRONLY" in args or "O_RDWR" in args)) \
                    or name in ("write", "rename", "renameat", "renameat2", "unlink", "unlinkat", "truncate", "ftruncate"):
                muts.setdefault(pid, []).append(len(seq[pid]) - 1)
    if not seq:
        return [], []
    pid = max(muts, key=lambda k: len(muts[k])) if muts else max(seq, key=lambda k: len(seq[k]))
    return seq[pid], muts.get(pid, [])


def run_case(hidi, workdir, name, spec, files, rng, crash_points):
    """Returns trace lines for one initial tree: first run, second run, crash runs + recovery runs."""
    lines = []
    def fresh(tag):
        d = os.path.join(workdir, tag)
        shutil.rmtree(d, ignore_errors=True)
        os.makedirs(d)
        build_tree(d, spec, files)
        return d
    d = fresh("a")
    log = os.path.join(workdir, "strace.log")
    pre = snapshot(d, files)
    rc, killed, outp = run_upkeep(hidi, d, log)
    if rc not in (0, 3):
        raise Infra("upkeep run failed to execute (rc=%s): %s" % (rc, outp[-1500:]))
    callseq, mut_idx = count_fs_calls(log)
    total_calls = len(callseq)
    post = snapshot(d, files)
    def facnew(a, b):      # every path of either snapshot that lies inside the factory directory
        return sorted(p for p in set(a) | set(b) if in_factory(p))
    lines.append({"ev": "upkeep", "kind": "first", "tree": name, "pre": pre, "post": post, "muts": parse_strace(log, d), "rc": rc,
                  "killed": False, "msg": outp[-300:] if rc else "", "facnew": facnew(pre, post)})
    rc2, _, outp2 = run_upkeep(hidi, d, log)
    post2 = snapshot(d, files)
    lines.append({"ev": "upkeep", "kind": "second", "tree": name, "pre": post, "post": post2, "muts": parse_strace(log, d), "rc": rc2,
                  "killed": False, "msg": outp2[-300:] if rc2 else "", "facnew": facnew(post, post2)})
    # crash points: SIGKILL on entering the n-th file-system call, then an undisturbed run
    if total_calls > 0 and crash_points > 0:
        cand = list(range(total_calls))
        if len(cand) <= crash_points:
            pts = cand
        else:
            # on entering each mutating call and the call after it (the windows in which the tree is half-done),
            # then seeded others
            near = sorted({o for m in mut_idx for o in (m, m + 1) if 0 <= o < total_calls})
            if len(near) > crash_points:
                near = sorted(rng.sample(near, crash_points))
            rest = [c for c in cand if c not in near]
            pts = sorted(set(near + rng.sample(rest, min(len(rest), max(0, crash_points - len(near))))))
        for n in pts:
            d = fresh("c")
            pre = snapshot(d, files)
            rc, killed, outp = run_upkeep(hidi, d, log, kill_at=callseq[n])
            mid = snapshot(d, files)
            lines.append({"ev": "upkeep", "kind": "crashed", "tree": name, "at": "%s#%d" % callseq[n], "pre": pre, "post": mid, "muts": parse_strace(log, d),
                          "rc": rc, "killed": True, "msg": "", "facnew": facnew(pre, mid)})
            rc, _, outp = run_upkeep(hidi, d, log)
            post = snapshot(d, files)
            lines.append({"ev": "upkeep", "kind": "recovery", "tree": name, "at": "%s#%d" % callseq[n], "pre": mid, "post": post, "muts": parse_strace(log, d),
                          "rc": rc, "killed": False, "msg": outp[-300:] if rc else "", "facnew": facnew(mid, post)})
    return lines
