"""Renders the spec's abstract device configuration as the TOML text HIDI reads (the only place
of the framework that knows the file syntax of device configurations)."""


def q(s):
    return '"' + s.replace("\\", "\\\\").replace('"', '\\"') + '"'


def fl(n, d):
    return repr(n / d)


def render(cfg, sub="", ident=(0, 0, 0, 0), uniq="", colors=None):
    out = []
    out.append("collision_mode = %s" % q(cfg["mode"]))
    out.append("exit_sequence = [%s]" % ", ".join(q(k) for k in cfg["exit"]))
    out.append("")
    out.append("[identifier]")
    for n, v in zip(("bus", "vendor", "product", "version"), ident):
        out.append("  %s = 0x%04x" % (n, v))
    if uniq:
        out.append("  uniq = %s" % q(uniq))
    out.append("")
    out.append("[defaults]")
    out.append("  octave = %d" % cfg["dOct"])
    out.append("  semitone = %d" % cfg["dSemi"])
    out.append("  channel = %d" % (cfg["dChan"] + 1))
    out.append("  mapping = %s" % q(cfg["maps"][cfg["dMap"] - 1]["name"]))
    out.append("  velocity = %d" % cfg["vel"])
    out.append("")
    out.append("[action_mapping]")
    for k, a in cfg["actions"].items():
        out.append("  %s = %s" % (k, q(a)))
    if colors:
        out.append("")
        out.append("[open_rgb]")
        for k, v in colors.items():
            out.append("  %s = 0x%06x" % (k, v))
    for m in cfg["maps"]:
        out.append("")
        out.append("[[mapping]]")
        out.append("  name = %s" % q(m["name"]))
        if m["keys"]:
            out.append("  [[mapping.keys]]")
            out.append("    subhandler = %s" % q(sub))
            out.append("    [mapping.keys.map]")
            for k, kd in m["keys"].items():
                v = str(kd["n"]) if kd["o"] == 0 else "%d,%d" % (kd["n"], kd["o"])
                out.append("      %s = %s" % (k, q(v)))
        # one [[mapping.analog]] section per sub-handler: an axis name may carry its sub-handler ("Touchpad:ABS_X")
        groups = {}
        for a, ad in m["axes"].items():
            sh, name = a.split(":", 1) if ":" in a else (sub, a)
            groups.setdefault(sh, {})[name] = ad
        for sh, axes in groups.items():
            out.append("  [[mapping.analog]]")
            out.append("    subhandler = %s" % q(sh))
            handler_dz = [a for a in axes.values() if a.get("dzsrc", "specific") != "specific"]
            if handler_dz:
                out.append("    default_deadzone = %s" % fl(handler_dz[0]["dzn"], handler_dz[0]["dzd"]))
            out.append("    [mapping.analog.map]")
            for a, ad in axes.items():
                f = ["type = %s" % q(ad["type"])]
                if ad["type"] == "cc":
                    f.append("cc = %d" % ad["cc"])
                    if ad["bidi"]:
                        f.append("cc_negative = %d" % ad["ccNeg"])
                if ad["type"] == "key":
                    f.append("note = %d" % ad["note"])
                    if ad["bidi"]:
                        f.append("note_negative = %d" % ad["noteNeg"])
                if ad["type"] == "action":
                    f.append("action = %s" % q(ad["act"]))
                    if ad["bidi"]:
                        f.append("action_negative = %s" % q(ad["actNeg"]))
                if ad["off"]:
                    f.append("channel_offset = %d" % ad["off"])
                if ad["offNeg"]:
                    f.append("channel_offset_negative = %d" % ad["offNeg"])
                if ad["flip"]:
                    f.append("flip_axis = true")
                if ad["centre"]:
                    f.append("deadzone_at_center = true")
                out.append("      %s = { %s }" % (a, ", ".join(f)))
            spec = [(a, ad) for a, ad in axes.items() if ad.get("dzsrc", "specific") == "specific"]
            if spec:
                out.append("    [mapping.analog.deadzones]")
                for a, ad in spec:
                    out.append("      %s = %s" % (a, fl(ad["dzn"], ad["dzd"])))
    return "\n".join(out) + "\n"
