"""Seeded random drivers for the device engine ("code -> spec" direction): histories under wider
bounds than TLC exhausts.  Every generator stays inside the quantifier of the properties:
press and release of each key alternate; for C04 no third action while a pair is held."""
import json
import os
import random
import tomllib

from vlib import REPO

NOTE_NAMES = {"C": 0, "C#": 1, "D": 2, "D#": 3, "E": 4, "F": 5, "F#": 6, "G": 7, "G#": 8, "A": 9, "A#": 10, "B": 11}


def note_value(s):
    s = s.strip()
    try:
        return int(s)
    except ValueError:
        pass
    u = s.upper()
    i = 2 if len(u) > 1 and u[1] == "#" else 1
    return (int(u[i:]) + 2) * 12 + NOTE_NAMES[u[:i]]


def factory_keyboard_cfg(mode=None):
    """The shipped keyboard configuration as the spec's abstract configuration record."""
    with open(os.path.join(REPO, "cmd/hidi/hidi-config/factory/keyboard/0_default.toml"), "rb") as f:
        d = tomllib.load(f)
    maps = []
    for m in d["mapping"]:
        keys = {}
        for sub in m.get("keys", []):
            if sub.get("subhandler", "") != "":
                continue
            for k, v in sub["map"].items():
                parts = v.split(",")
                keys[k] = {"n": note_value(parts[0]), "o": int(parts[1]) if len(parts) > 1 else 0}
        maps.append({"name": m["name"], "keys": keys, "axes": {}})
    names = [m["name"] for m in maps]
    return {
        "mode": mode or d["collision_mode"], "exit": list(d.get("exit_sequence", [])),
        "vel": d["defaults"]["velocity"] or 64,
        "dOct": d["defaults"]["octave"], "dSemi": d["defaults"]["semitone"], "dChan": d["defaults"]["channel"] - 1,
        "dMap": names.index(d["defaults"]["mapping"]) + 1,
        "actions": dict(d["action_mapping"]), "maps": maps, "axinfo": {},
    }


PAIRS = [("octave_up", "octave_down"), ("semitone_up", "semitone_down"), ("channel_up", "channel_down"),
         ("mapping_up", "mapping_down")]


def random_key_walk(rng, cfg, length, note_keys, action_keys, p_action=0.15, exit_free=True, disconnect=True,
                    oct_bound=9, semi_bound=12):
    """Alternating press/release history.  Action keys are tapped or held; never a third action while
    both keys of an up/down pair are held (C04's quantifier); the exit sequence is never completed
    when exit_free (its own check exercises it)."""
    held = set()
    walk = []
    exitset = set(cfg["exit"])
    act_of = cfg["actions"]
    octv, semi = cfg["dOct"], cfg["dSemi"]

    def pair_complete(extra=None):
        acts = {act_of[k] for k in held if k in act_of}
        if extra:
            acts = acts | {extra}
        return any(a in acts and b in acts for a, b in PAIRS)

    for _ in range(length):
        if held and rng.random() < 0.45:
            k = rng.choice(sorted(held))
            held.discard(k)
            walk.append({"ev": "release", "k": k})
            continue
        if rng.random() < p_action and action_keys:
            k = rng.choice(action_keys)
        else:
            k = rng.choice(note_keys)
        if k in held:
            continue
        if exit_free and exitset and exitset <= (held | {k}):
            continue
        if k in act_of:
            a = act_of[k]
            if pair_complete():
                continue  # no third action while a pair is held
            if pair_complete(a):
                pass  # completing a pair resets that parameter
            if a == "octave_up" and octv >= oct_bound or a == "octave_down" and octv <= -oct_bound:
                continue
            if a == "semitone_up" and semi >= semi_bound or a == "semitone_down" and semi <= -semi_bound:
                continue
            if not pair_complete(a):
                octv += {"octave_up": 1, "octave_down": -1}.get(a, 0)
                semi += {"semitone_up": 1, "semitone_down": -1}.get(a, 0)
            else:
                acts = {act_of[x] for x in held if x in act_of} | {a}
                if "octave_up" in acts and "octave_down" in acts and not ("mapping_up" in acts and "mapping_down" in acts):
                    octv = 0
                elif "semitone_up" in acts and "semitone_down" in acts and not (("mapping_up" in acts and "mapping_down" in acts) or ("octave_up" in acts and "octave_down" in acts)):
                    semi = 0
        held.add(k)
        walk.append({"ev": "press", "k": k})
        if k in act_of and rng.random() < 0.6:
            held.discard(k)
            walk.append({"ev": "release", "k": k})
    if disconnect and rng.random() < 0.7:
        walk.append({"ev": "disconnect"})
    else:
        for k in sorted(held):
            walk.append({"ev": "release", "k": k})
        if disconnect:
            walk.append({"ev": "disconnect"})
    return walk


def random_keys(seed, tier):
    """Factory keyboard configuration (4 mappings, ~100 keys), all four collision modes."""
    rng = random.Random(seed * 7919 + 17)
    n_walks, length = (40, 250) if tier == "quick" else (400, 600)
    batches = []
    for mode in ["off", "no_repeat", "interrupt", "retrigger"]:
        cfg = factory_keyboard_cfg(mode)
        allkeys = sorted({k for m in cfg["maps"] for k in m["keys"]} - set(cfg["actions"]))
        # a working set of keys: collisions need keys that share pitches
        walks = []
        for _ in range(n_walks):
            notes = rng.sample(allkeys, min(len(allkeys), rng.choice([4, 8, 16, 40])))
            acts = sorted(cfg["actions"])
            walks.append(random_key_walk(rng, cfg, length, notes, acts))
        batches.append({"cfg": cfg, "cfgmode": "literal", "sub": "", "walks": walks})
    return batches


def random_exit(seed, tier):
    """Factory keyboard (exit sequence LEFTALT+ESC, ESC is also panic) and longer sequences whose
    members are note keys / action keys / unmapped keys; the sequence is completed and released often."""
    rng = random.Random(seed * 104729 + 3)
    n_walks, length = (30, 120) if tier == "quick" else (300, 300)
    batches = []
    for mode in ["interrupt", "off"]:
        for exitseq in (None, [], ["KEY_Z"], ["KEY_ESC", "KEY_Z", "KEY_RIGHTSHIFT"], ["KEY_F2", "KEY_F1"]):
            cfg = factory_keyboard_cfg(mode)
            if exitseq is not None:
                cfg["exit"] = exitseq
            notes = ["KEY_Z", "KEY_X", "KEY_C", "KEY_V"]
            others = sorted(set(cfg["exit"]) | {"KEY_RIGHTSHIFT", "KEY_ESC", "KEY_F2"})
            walks = []
            for _ in range(n_walks):
                walks.append(random_key_walk(rng, cfg, length, notes + others, ["KEY_F2"], p_action=0.1, exit_free=False))
            batches.append({"cfg": cfg, "cfgmode": "literal", "sub": "", "walks": walks})
    return batches
