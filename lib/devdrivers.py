"""Seeded random drivers for the device engine ("code -> spec" direction): histories under wider
bounds than TLC exhausts.  Every generator stays inside the quantifier of the properties:
press and release of each key alternate; for C04 no third action while a pair is held."""
import json
import os
import random
import tomllib

from vlib import REPO

NOTE_NAMES = {"C": 0, "C#": 1, "D": 2, "D#": 3, "E": 4, "F": 5, "F#": 6, "G": 7, "G#": 8, "A": 9, "A#": 10, "B": 11}


def note_value(s):
    s = s.strip()
    try:
        return int(s)
    except ValueError:
        pass
    u = s.upper()
    i = 2 if len(u) > 1 and u[1] == "#" else 1
    return (int(u[i:]) + 2) * 12 + NOTE_NAMES[u[:i]]


def factory_keyboard_cfg(mode=None):
    """The shipped keyboard configuration as the spec's abstract configuration record."""
    with open(os.path.join(REPO, "cmd/hidi/hidi-config/factory/keyboard/0_default.toml"), "rb") as f:
        d = tomllib.load(f)
    maps = []
    for m in d["mapping"]:
        keys = {}
        for sub in m.get("keys", []):
            if sub.get("subhandler", "") != "":
                continue
            for k, v in sub["map"].items():
                parts = v.split(",")
                keys[k] = {"n": note_value(parts[0]), "o": int(parts[1]) if len(parts) > 1 else 0}
        maps.append({"name": m["name"], "keys": keys, "axes": {}})
    names = [m["name"] for m in maps]
    return {
        "mode": mode or d["collision_mode"], "exit": list(d.get("exit_sequence", [])),
        "vel": d["defaults"]["velocity"] or 64,
        "dOct": d["defaults"]["octave"], "dSemi": d["defaults"]["semitone"], "dChan": d["defaults"]["channel"] - 1,
        "dMap": names.index(d["defaults"]["mapping"]) + 1,
        "actions": dict(d["action_mapping"]), "maps": maps, "axinfo": {},
    }


PAIRS = [("octave_up", "octave_down"), ("semitone_up", "semitone_down"), ("channel_up", "channel_down"),
         ("mapping_up", "mapping_down")]


def random_key_walk(rng, cfg, length, note_keys, action_keys, p_action=0.15, exit_free=True, disconnect=True,
                    oct_bound=9, semi_bound=12):
    """Alternating press/release history.  Action keys are tapped or held; never a third action while
    both keys of an up/down pair are held (C04's quantifier); the exit sequence is never completed
    when exit_free (its own check exercises it)."""
    held = set()
    walk = []
    exitset = set(cfg["exit"])
    act_of = cfg["actions"]
    octv, semi = cfg["dOct"], cfg["dSemi"]

    def pair_complete(extra=None):
        acts = {act_of[k] for k in held if k in act_of}
        if extra:
            acts = acts | {extra}
        return any(a in acts and b in acts for a, b in PAIRS)

    for _ in range(length):
        if rng.random() < 0.06:     # what the engine must ignore: key repeat of a held key, EV_SYN, EV_MSC, EV_REL
            kind = rng.choice(["repeat", "syn", "msc", "rel"])
            if kind != "repeat" or held:
                walk.append({"ev": "ignored", "kind": kind, "k": rng.choice(sorted(held)) if held else ""})
                continue
        if held and rng.random() < 0.45:
            k = rng.choice(sorted(held))
            held.discard(k)
            walk.append({"ev": "release", "k": k})
            continue
        if rng.random() < p_action and action_keys:
            k = rng.choice(action_keys)
        else:
            k = rng.choice(note_keys)
        if k in held:
            continue
        if exit_free and exitset and exitset <= (held | {k}):
            continue
        if k in act_of:
            a = act_of[k]
            if pair_complete():
                continue  # no third action while a pair is held
            if pair_complete(a):
                pass  # completing a pair resets that parameter
            if a == "octave_up" and octv >= oct_bound or a == "octave_down" and octv <= -oct_bound:
                continue
            if a == "semitone_up" and semi >= semi_bound or a == "semitone_down" and semi <= -semi_bound:
                continue
            if not pair_complete(a):
                octv += {"octave_up": 1, "octave_down": -1}.get(a, 0)
                semi += {"semitone_up": 1, "semitone_down": -1}.get(a, 0)
            else:
                acts = {act_of[x] for x in held if x in act_of} | {a}
                if "octave_up" in acts and "octave_down" in acts and not ("mapping_up" in acts and "mapping_down" in acts):
                    octv = 0
                elif "semitone_up" in acts and "semitone_down" in acts and not (("mapping_up" in acts and "mapping_down" in acts) or ("octave_up" in acts and "octave_down" in acts)):
                    semi = 0
        held.add(k)
        walk.append({"ev": "press", "k": k})
        if k in act_of and rng.random() < 0.6:
            held.discard(k)
            walk.append({"ev": "release", "k": k})
    if disconnect and rng.random() < 0.7:
        walk.append({"ev": "disconnect"})
    else:
        for k in sorted(held):
            walk.append({"ev": "release", "k": k})
        if disconnect:
            walk.append({"ev": "disconnect"})
    return walk


def random_keys(seed, tier):
    """Factory keyboard configuration (4 mappings, ~100 keys), all four collision modes."""
    rng = random.Random(seed * 7919 + 17)
    n_walks, length = (40, 250) if tier == "quick" else (200, 400)
    batches = []
    for mode in ["off", "no_repeat", "interrupt", "retrigger"]:
        cfg = factory_keyboard_cfg(mode)
        cfg["vel"] = rng.choice([1, 37, 64, 100, 127])
        # "the configured defaults are the initial state"
        cfg["dOct"], cfg["dSemi"] = rng.choice([0, 0, -2, 3]), rng.choice([0, 0, -5, 7])
        cfg["dChan"], cfg["dMap"] = rng.choice([0, 0, 9, 15]), rng.randrange(1, len(cfg["maps"]) + 1)
        cfg["actions"].update({"KEY_F9": "cc_learning", "KEY_F10": "multinote", "KEY_F8": "mapping", "KEY_F7": "channel"})
        for m in cfg["maps"]:
            for k in ("KEY_F7", "KEY_F8", "KEY_F9", "KEY_F10"):
                m["keys"].pop(k, None)
        allkeys = sorted({k for m in cfg["maps"] for k in m["keys"]} - set(cfg["actions"]))
        # a working set of keys: collisions need keys that share pitches
        walks = []
        for _ in range(n_walks):
            notes = rng.sample(allkeys, min(len(allkeys), rng.choice([4, 8, 16, 40])))
            acts = sorted(cfg["actions"])
            walks.append(random_key_walk(rng, cfg, length, notes, acts))
        # the engine looks keys up by the sub-handler the event came from
        batches.append({"cfg": cfg, "cfgmode": "literal", "sub": "" if mode in ("off", "interrupt") else "Keyboard", "walks": walks})
    return batches


def random_cfg_keys(seed, tier):
    """Random configurations (not the factory one): 1-5 mappings over a pool of ten keys, each mapping a random subset
    with notes from a small set (collisions, the ends of the range) and random channel offsets; a random subset of the
    actions (so that some up/down pairs are incomplete), random defaults incl. the default mapping, velocity and mode;
    keys that are actions in the configuration but notes in a mapping (the action wins)."""
    rng = random.Random(seed * 3571 + 29)
    n_cfg, n_walks, length = (12, 6, 150) if tier == "quick" else (120, 12, 300)
    pool = ["KEY_Q", "KEY_W", "KEY_E", "KEY_R", "KEY_T", "KEY_Y", "KEY_U", "KEY_I", "KEY_O", "KEY_P"]
    act_keys = ["KEY_F1", "KEY_F2", "KEY_F3", "KEY_F4", "KEY_F5", "KEY_F6", "KEY_F7", "KEY_F8", "KEY_F9", "KEY_F10", "KEY_F11",
                "KEY_F12", "KEY_ESC"]
    all_acts = ["octave_down", "octave_up", "semitone_down", "semitone_up", "channel_down", "channel_up", "channel", "mapping",
                "cc_learning", "multinote", "mapping_down", "mapping_up", "panic"]
    batches = []
    for ci in range(n_cfg):
        nm = rng.choice([1, 1, 2, 3, 5])
        notes = rng.sample([0, 1, 11, 12, 59, 60, 61, 72, 115, 116, 126, 127], rng.choice([2, 3, 5]))
        maps = []
        for m in range(nm):
            ks = rng.sample(pool, rng.randrange(1, len(pool) + 1))
            maps.append({"name": "M%d" % (m + 1), "keys": {k: {"n": rng.choice(notes), "o": rng.choice([0, 0, 0, 1, 7, 15])} for k in ks},
                         "axes": {}})
        chosen = rng.sample(range(len(all_acts)), rng.randrange(2, len(all_acts) + 1))
        actions = {act_keys[i]: all_acts[i] for i in chosen}
        if rng.random() < 0.3:      # a pool key that is an action too: the action wins, its note role is dead
            actions[rng.choice(pool)] = rng.choice(["octave_up", "panic", "mapping_up"])
        cfg = base_cfg(mode=rng.choice(["off", "no_repeat", "interrupt", "retrigger"]), vel=rng.choice([1, 64, 100, 127]),
                       dOct=rng.choice([0, 0, 1, -1, 4, -5]), dSemi=rng.choice([0, 0, 1, -7, 11]), dChan=rng.randrange(16),
                       dMap=rng.randrange(nm) + 1, actions=actions, maps=maps)
        note_keys = [k for k in pool if k not in actions]
        if not note_keys:
            continue
        walks = [random_key_walk(rng, cfg, length, note_keys, sorted(actions), p_action=rng.choice([0.1, 0.3])) for _ in range(n_walks)]
        sub = rng.choice(["", "", "Keyboard"])
        if ci % 3 == 0:
            # a hat that emulates keys ON THE PITCHES OF THE KEYS (same notes, same offsets), in every mapping: it is
            # flicked (deflected and let go at once) anywhere in the walk; key steps are judged by the key rules as ever
            hat = axis("key", note=rng.choice(notes), noteNeg=rng.choice(notes), off=rng.choice([0, 0, 1, 7, 15]),
                       offNeg=rng.choice([0, 0, 1, 7, 15]), bidi=True)
            for m in maps:
                m["axes"] = {"ABS_HAT0X": dict(hat)}
            cfg["axinfo"] = {"ABS_HAT0X": {"min": -1, "max": 1}}
            sub = ""
            for w in walks:
                end = len(w) - (1 if w and w[-1]["ev"] == "disconnect" else 0)
                for _ in range(max(2, len(w) // 12)):
                    i = rng.randrange(0, end + 1)
                    w[i:i] = [{"ev": "axis", "a": "ABS_HAT0X", "raw": rng.choice([-1, 1])}, {"ev": "axis", "a": "ABS_HAT0X", "raw": 0}]
                    end += 2
        batches.append({"cfg": cfg, "cfgmode": "literal", "sub": sub, "walks": walks})
    return batches


def tight_key_batches(seed, tier):
    """Keys that share pitches, in every collision mode, on a MIDI output that is full whenever the device wants to
    write (the application's output channel has 8 slots and is shared by all devices; here: 1-2 slots, filled up by the
    harness before every event and before the disconnect, read only slowly): every message still has to arrive, in order."""
    rng = random.Random(seed * 7907 + 41)
    n_walks, length = (5, 60) if tier == "quick" else (30, 150)
    batches = []
    keys = {"KEY_Q": {"n": 60, "o": 0}, "KEY_W": {"n": 60, "o": 0}, "KEY_E": {"n": 60, "o": 0}, "KEY_R": {"n": 72, "o": 0},
            "KEY_T": {"n": 61, "o": 1}, "KEY_Y": {"n": 127, "o": 0}}
    acts = {"KEY_F1": "octave_down", "KEY_F2": "octave_up", "KEY_ESC": "panic"}
    for mode in ("off", "no_repeat", "interrupt", "retrigger"):
        for cap in (1, 2):
            cfg = base_cfg(mode=mode, dChan=rng.randrange(16), actions=acts, maps=[{"name": "M1", "keys": keys, "axes": {}}])
            walks = []
            for _ in range(n_walks):
                w = random_key_walk(rng, cfg, length, sorted(keys), sorted(acts), p_action=0.08)
                if not (w and w[-1]["ev"] == "disconnect"):
                    w.append({"ev": "disconnect"})
                walks.append(w)
            # cap 2: the device logs, as the application's devices do (the harness drains the log channel)
            batches.append({"cfg": cfg, "cfgmode": "literal", "sub": "", "walks": walks, "outcap": cap, "slow_us": 40, "prefill": True,
                            "logs": cap == 2})
    return batches


def logging_key_batches(seed, tier):
    """Invented keyboards (random_cfg_keys) on devices that log, as the application's do (every other driver creates its
    devices with logging off, as the repository's tests do)."""
    bs = random_cfg_keys(seed + 1000, tier)
    bs = bs[:6] if tier == "quick" else bs[:40]
    for b in bs:
        b["logs"] = True
        b["walks"] = b["walks"][:4]
    return bs


def tight_exit_batches(seed, tier):
    """The exit sequence while the termination-signal channel is full: the application hands ONE one-slot channel to all
    devices (and to os/signal); a signal raised by another keyboard and not yet read sits in it.  The harness fills the
    channel with a marker signal before every event and reads it only while it waits to hand over the next event: the
    signal of a completed sequence still has to arrive, and the completing press is still swallowed."""
    bs = random_exit(seed + 500, tier)
    out = []
    for b in bs:
        b = dict(b)
        b["walks"] = b["walks"][:6 if tier == "quick" else 40]
        b.update(outcap=8, slow_us=20, sigcap=1)
        out.append(b)
    return out


def random_exit(seed, tier):
    """Factory keyboard (exit sequence LEFTALT+ESC, ESC is also panic) and longer sequences whose
    members are note keys / action keys / unmapped keys; the sequence is completed and released often."""
    rng = random.Random(seed * 104729 + 3)
    n_walks, length = (30, 120) if tier == "quick" else (300, 300)
    batches = []
    for mode in ["interrupt", "off"]:
        for exitseq in (None, [], ["KEY_Z"], ["KEY_ESC", "KEY_Z", "KEY_RIGHTSHIFT"], ["KEY_F2", "KEY_F1"]):
            cfg = factory_keyboard_cfg(mode)
            if exitseq is not None:
                cfg["exit"] = exitseq
            notes = ["KEY_Z", "KEY_X", "KEY_C", "KEY_V"]
            others = sorted(set(cfg["exit"]) | {"KEY_RIGHTSHIFT", "KEY_ESC", "KEY_F2"})
            walks = []
            for _ in range(n_walks):
                walks.append(random_key_walk(rng, cfg, length, notes + others, ["KEY_F2"], p_action=0.1, exit_free=False))
            batches.append({"cfg": cfg, "cfgmode": "literal", "sub": "", "walks": walks})
    # a device that also delivers buttons (mouse / joystick sub-handler): key codes from 0x100 on, among them the codes of
    # the sequence's keys + 256 and + 512 - other keys, whatever a compact set of held keys makes of them
    codes = {"KEY_ESC": 1, "KEY_LEFTALT": 56, "KEY_Z": 44, "KEY_RIGHTSHIFT": 54}
    for exitseq in (None, ["KEY_ESC", "KEY_Z", "KEY_RIGHTSHIFT"]):
        cfg = factory_keyboard_cfg("interrupt")
        if exitseq is not None:
            cfg["exit"] = exitseq
        alias = ["x%x" % (codes[k] + off) for k in cfg["exit"] for off in (256, 512)]
        others = sorted(set(cfg["exit"]) | set(alias) | {"BTN_LEFT", "BTN_SOUTH"})
        walks = [random_key_walk(rng, cfg, length, ["KEY_X"] + others, ["KEY_F2"], p_action=0.05, exit_free=False)
                 for _ in range(max(10, n_walks // 2))]
        batches.append({"cfg": cfg, "cfgmode": "literal", "sub": "", "walks": walks})
    return batches


# ---------------------------------------------------------------------------------------------
# analog axes

from fractions import Fraction


def axis(type="cc", **kw):
    a = {"type": type, "cc": 0, "ccNeg": 0, "note": 0, "noteNeg": 0, "off": 0, "offNeg": 0, "act": "", "actNeg": "",
         "bidi": False, "flip": False, "centre": False, "dzn": 0, "dzd": 1, "dzsrc": "specific"}
    a.update(kw)
    return a


def base_cfg(mode="interrupt", **kw):
    c = {"mode": mode, "exit": [], "vel": 64, "dOct": 0, "dSemi": 0, "dChan": 0, "dMap": 1,
         "actions": {}, "maps": [], "axinfo": {}}
    c.update(kw)
    return c


def work_pos(info, ad, raw):
    """Exact position the type-specific code works with (see DeviceSys!WorkPos)."""
    v = Fraction(raw, abs(info["min"])) if raw < 0 else Fraction(raw, abs(info["max"]))
    if ad["centre"]:
        v = 2 * v - 1
    dz = Fraction(ad["dzn"], ad["dzd"])
    if abs(v) <= dz:
        s = Fraction(0)
    else:
        s = (abs(v) - dz) / (1 - dz) * (1 if v > 0 else -1)
    can_neg = info["min"] < 0 or ad["centre"]
    if ad["flip"]:
        s = -s if can_neg else 1 - s
    return s if can_neg else 2 * s - 1


def on_float_boundary(info, ad, raw):
    """Positions whose exact shaped value sits on a threshold the code compares a rounded float with
    (only possible to hit exactly; with a dead-zone the float may land on either side)."""
    if ad["dzn"] == 0 and not ad["centre"] and not (ad["flip"] and info["min"] >= 0) and info["min"] < 0:
        return False
    w = work_pos(info, ad, raw)
    return abs(w) in (Fraction(1, 2), Fraction(49, 100))


DZS_QUICK = [(0, 1), (1, 20), (1, 10)]
DZS_FULL = [(0, 1), (1, 20), (1, 10), (1, 4), (1, 2), (3, 50), (13, 100)]


def c06_batches(seed, tier):
    """Option lattice x complete sweeps of 8-bit axes (up, down, seeded random order), hats, and
    edge / dead-zone-edge / centre / sampled values of 16-bit axes.  One axis per configuration."""
    rng = random.Random(seed * 31 + 5)
    dzs = DZS_QUICK if tier == "quick" else DZS_FULL
    batches = []
    ranges = [("s8", -128, 127), ("u8", 0, 255)]
    if tier == "thorough":
        ranges += [("s8sym", -127, 127), ("hat", -1, 1), ("u4", 0, 15)]
    big = [("s16", -32768, 32767), ("u16", 0, 65535)]
    srcs = ["specific", "handler", "global"]
    n = 0
    for rname, mn, mx in ranges + big:
        for dzn, dzd in dzs:
            for flip in (False, True):
                for centre in ((False, True) if mn == 0 else (False,)):
                    for kind in ("cc", "bidi", "pitch"):
                        n += 1
                        src = srcs[n % 3] if tier == "quick" else None
                        for dzsrc in ([src] if src else srcs):
                            ad = axis("pitch_bend" if kind == "pitch" else "cc", cc=20, ccNeg=21, off=n % 16, offNeg=(n + 5) % 16,
                                      bidi=(kind == "bidi"), flip=flip, centre=centre, dzn=dzn, dzd=dzd, dzsrc=dzsrc)
                            cfg = base_cfg(dChan=n % 16, maps=[{"name": "M1", "keys": {}, "axes": {"ABS_X": ad}}],
                                           axinfo={"ABS_X": {"min": mn, "max": mx}})
                            if mx - mn <= 255:
                                vals = list(range(mn, mx + 1))
                            else:
                                # edges, dead-zone edges, centre, sampled
                                pts = {mn, mn + 1, mx, mx - 1, 0, 1, -1 if mn < 0 else 2, (mn + mx) // 2, (mn + mx) // 2 + 1,
                                       (mn + mx) // 2 - 1}
                                for base in (0, (mn + mx) // 2):
                                    for sgn in (1, -1):
                                        e = base + sgn * (mx - base) * dzn // dzd
                                        pts |= {e - 2, e - 1, e, e + 1, e + 2}
                                pts = {p for p in pts if mn <= p <= mx}
                                k = 300 if tier == "quick" else 2000
                                vals = sorted(pts | {rng.randint(mn, mx) for _ in range(k)})
                            up = [{"ev": "axis", "a": "ABS_X", "raw": v} for v in vals]
                            down = list(reversed(up))
                            rnd = up[:]
                            rng.shuffle(rnd)
                            sub = "pad" if dzsrc == "global" else ""
                            batches.append({"cfg": cfg, "cfgmode": "literal", "sub": sub, "walks": [up, down, rnd]})
    # dead-zones from different sources side by side in one mapping: an axis with its own dead-zone (smaller and larger
    # than the handler's default), axes that fall back to the handler's default, and - on another handler - one that falls
    # back to the global default, which differs from both
    for mn, mx in ((-128, 127), (0, 255)):
        ax = {"ABS_X": axis("cc", cc=20, dzn=0, dzd=1, dzsrc="specific"),
              "ABS_Y": axis("cc", cc=21, dzn=1, dzd=10, dzsrc="handler"),
              "ABS_Z": axis("cc", cc=22, dzn=1, dzd=4, dzsrc="specific"),
              "ABS_RX": axis("pitch_bend", off=2, dzn=1, dzd=10, dzsrc="handler"),
              "ABS_RY": axis("cc", cc=23, ccNeg=24, bidi=True, dzn=0, dzd=1, dzsrc="specific", centre=(mn == 0)),
              "Other:ABS_RZ": axis("cc", cc=25, dzn=3, dzd=10, dzsrc="global")}
        info = {a: {"min": mn, "max": mx} for a in ax}
        cfg = base_cfg(dChan=rng.randrange(16), maps=[{"name": "M1", "keys": {}, "axes": ax}], axinfo=info)
        walks = []
        for a in sorted(ax):
            vals = list(range(mn, mx + 1, 3)) + [mx]
            walks.append([{"ev": "axis", "a": a, "raw": v} for v in vals if not on_float_boundary(info[a], ax[a], v)])
        batches.append({"cfg": cfg, "cfgmode": "literal", "sub": "pad", "walks": walks})
    # two handlers of one device deliver the same axis code (a stick and a touchpad both reporting ABS_X / ABS_Y): each has
    # its own mapping entry, its own controller and its own memory of the last value - the reports are interleaved, the
    # same raw value often arriving on one right after the other
    for flip in (False, True):
        for rname, mn, mx in ranges[:2]:
            ax = {"ABS_X": axis("cc", cc=20, off=1, flip=flip, dzn=0, dzd=1),
                  "Touchpad:ABS_X": axis("cc", cc=22, off=2, flip=not flip, dzn=1, dzd=10),
                  "ABS_Y": axis("pitch_bend", off=3, dzn=0, dzd=1),
                  "Touchpad:ABS_Y": axis("pitch_bend", off=4, flip=flip, dzn=0, dzd=1)}
            info = {a: {"min": mn, "max": mx} for a in ax}
            cfg = base_cfg(dChan=rng.randrange(16), maps=[{"name": "M1", "keys": {}, "axes": ax}], axinfo=info)
            walks = []
            for _ in range(3 if tier == "quick" else 12):
                w = []
                for _ in range(150):
                    v = rng.choice([mn, mx, (mn + mx) // 2, rng.randint(mn, mx)])
                    for a in rng.sample(sorted(ax), rng.choice([1, 2, 2, 4])):
                        w.append({"ev": "axis", "a": a, "raw": v if rng.random() < 0.8 else rng.randint(mn, mx)})
                walks.append(w)
            batches.append({"cfg": cfg, "cfgmode": "literal", "sub": "", "walks": walks})
    batches += c06_mapping_batches(seed, tier)
    return batches


def c06_mapping_batches(seed, tier):
    """The transfer function follows the mapping in force: the same axes are defined in three mappings with other dead
    zones (own, the sub-handler's default, the global default), orientation, controllers and kinds; mapping keys are
    tapped between reports (C06_SentValue judges every transmitted value against the definition in force)."""
    rng = random.Random(seed * 613 + 29)
    batches = []
    n_walks, length = (8, 250) if tier == "quick" else (60, 600)
    acts = {"KEY_F11": "mapping_down", "KEY_F12": "mapping_up"}
    for mn, mx in ((-128, 127), (0, 255)):
        for dsrc in ("specific", "handler", "global"):
            c = (mn == 0)
            m1 = {"ABS_X": axis("cc", cc=20, dzn=0, dzd=1, dzsrc="specific", centre=c),
                  "ABS_Y": axis("pitch_bend", off=1, dzn=1, dzd=10, dzsrc=dsrc, centre=c),
                  "ABS_Z": axis("cc", cc=22, ccNeg=23, offNeg=2, bidi=True, dzn=1, dzd=10, dzsrc=dsrc, centre=c)}
            m2 = {"ABS_X": axis("cc", cc=20, dzn=1, dzd=2, dzsrc="specific", centre=c),
                  "ABS_Y": axis("pitch_bend", off=1, dzn=1, dzd=4, dzsrc=dsrc, centre=c),
                  "ABS_Z": axis("cc", cc=22, ccNeg=23, offNeg=2, bidi=True, dzn=1, dzd=4, dzsrc=dsrc, centre=c)}
            m3 = {"ABS_X": axis("cc", cc=30, flip=True, dzn=1, dzd=10, dzsrc="specific", centre=c),
                  "ABS_Y": axis("cc", cc=31, dzn=0, dzd=1, dzsrc=dsrc, centre=c),
                  "ABS_Z": axis("pitch_bend", off=3, dzn=0, dzd=1, dzsrc=dsrc, centre=c)}
            info = {a: {"min": mn, "max": mx} for a in m1}
            maps = [{"name": "M1", "keys": {}, "axes": m1}, {"name": "M2", "keys": {}, "axes": m2},
                    {"name": "M3", "keys": {}, "axes": m3}]
            cfg = base_cfg(dChan=rng.randrange(16), dMap=rng.randrange(3) + 1, actions=acts, maps=maps, axinfo=info)
            mid = (mn + mx) // 2 if mn == 0 else 0
            walks = []
            for _ in range(n_walks):
                w = []
                for _ in range(length):
                    if rng.random() < 0.12:
                        k = rng.choice(["KEY_F11", "KEY_F12"])
                        w += [{"ev": "press", "k": k}, {"ev": "release", "k": k}]
                        continue
                    a = rng.choice(sorted(info))
                    r = rng.random()
                    if r < 0.2:
                        raw = rng.choice([mn, mx, mid])
                    elif r < 0.6:
                        raw = mid + rng.randint(-(mx - mid) * 6 // 10, (mx - mid) * 6 // 10)     # inside the wider dead zones
                    else:
                        raw = rng.randint(mn, mx)
                    raw = max(mn, min(mx, raw))
                    if any(on_float_boundary(info[a], mp["axes"][a], raw) for mp in maps):
                        continue
                    w.append({"ev": "axis", "a": a, "raw": raw})
                walks.append(w)
            batches.append({"cfg": cfg, "cfgmode": "literal", "sub": "pad" if dsrc == "global" else "", "walks": walks})
    return batches


def c07_batches(seed, tier):
    """Random position sequences (direct jumps between sides, exact centre) on two bidirectional
    axes with distinct controllers and channel offsets, cc-learning pressed and released anywhere."""
    rng = random.Random(seed * 131 + 9)
    batches = []
    n_walks, length = (12, 200) if tier == "quick" else (80, 600)
    for dzn, dzd in (DZS_QUICK if tier == "quick" else DZS_FULL[:5]):
        for variant in ("signed", "centred", "mixed", "unsigned"):
            for flip in (False, True):
                ax = {}
                info = {}
                if variant in ("signed", "mixed"):
                    ax["ABS_X"] = axis("cc", cc=1, ccNeg=2, off=0, offNeg=3, bidi=True, flip=flip, dzn=dzn, dzd=dzd)
                    info["ABS_X"] = {"min": -128, "max": 127}
                if variant in ("centred", "mixed"):
                    ax["ABS_Y"] = axis("cc", cc=3, ccNeg=4, off=2, offNeg=2, bidi=True, centre=True, flip=not flip, dzn=dzn, dzd=dzd)
                    info["ABS_Y"] = {"min": 0, "max": 255}
                if variant == "unsigned":      # unsigned, no dead-zone at the centre: a branch of its own in the code
                    ax["ABS_Z"] = axis("cc", cc=9, ccNeg=10, off=0, offNeg=4, bidi=True, flip=flip, dzn=dzn, dzd=dzd)
                    info["ABS_Z"] = {"min": 0, "max": 255}
                    ax["ABS_RZ"] = axis("cc", cc=11, ccNeg=12, off=1, offNeg=1, bidi=True, flip=not flip, dzn=0, dzd=1)
                    info["ABS_RZ"] = {"min": 0, "max": 1023}
                if variant == "signed":
                    ax["ABS_RX"] = axis("cc", cc=5, ccNeg=6, off=1, offNeg=1, bidi=True, dzn=dzn, dzd=dzd, dzsrc="handler")
                    info["ABS_RX"] = {"min": -32768, "max": 32767}
                cfg = base_cfg(dChan=rng.randrange(16), actions={"KEY_F9": "cc_learning"},
                               maps=[{"name": "M1", "keys": {}, "axes": ax}], axinfo=info)
                walks = []
                for _ in range(n_walks):
                    w = []
                    learning = False
                    for _ in range(length):
                        if rng.random() < 0.08:
                            w.append({"ev": "release" if learning else "press", "k": "KEY_F9"})
                            learning = not learning
                            continue
                        a = rng.choice(sorted(ax))
                        mn, mx = info[a]["min"], info[a]["max"]
                        mid = (mn + mx) // 2 if mn == 0 else 0
                        r = rng.random()
                        if r < 0.25:
                            raw = rng.choice([mn, mx, mid, mid + 1, mid - 1 if mid - 1 >= mn else mid, mn + 1, mx - 1])
                        elif r < 0.5:
                            raw = rng.randint(mn, mx)
                        else:  # near the half-travel gate and the dead-zone edge
                            half = (mx - mid) // 2
                            raw = mid + rng.choice([1, -1]) * rng.choice([half, half + 1, half - 1, (mx - mid) * dzn // dzd + rng.randint(-1, 2),
                                                                          rng.randint(0, mx - mid)])
                            raw = max(mn, min(mx, raw))
                        if on_float_boundary(info[a], ax[a], raw):
                            continue
                        w.append({"ev": "axis", "a": a, "raw": raw})
                    if learning:
                        w.append({"ev": "release", "k": "KEY_F9"})
                    walks.append(w)
                batches.append({"cfg": cfg, "cfgmode": "literal", "sub": "", "walks": walks})
    # two handlers of one device, the same axis code, each with its own pair of controllers: the same value often arrives
    # on one right after the other, as a crossing of the centre
    for flip in (False, True):
        ax = {"ABS_X": axis("cc", cc=50, ccNeg=51, off=0, offNeg=1, bidi=True, flip=flip, dzn=0, dzd=1),
              "Second:ABS_X": axis("cc", cc=52, ccNeg=53, off=2, offNeg=3, bidi=True, flip=flip, dzn=0, dzd=1)}
        info = {a: {"min": -128, "max": 127} for a in ax}
        cfg = base_cfg(dChan=rng.randrange(16), maps=[{"name": "M1", "keys": {}, "axes": ax}], axinfo=info)
        walks = []
        for _ in range(4 if tier == "quick" else 20):
            w = []
            for _ in range(100):
                v = rng.choice([-128, 127, 90, -90, 40, -40, 0])
                order = rng.sample(sorted(ax), 2)
                w.append({"ev": "axis", "a": order[0], "raw": v})
                w.append({"ev": "axis", "a": order[1], "raw": rng.choice([v, v, -v if v != -128 else 127])})
            walks.append(w)
        batches.append({"cfg": cfg, "cfgmode": "literal", "sub": "", "walks": walks})
    # controller numbers at the ends of the range: 0 (Bank Select) and 119 are controllers like any other, on either side
    # (every number is used by one axis only: the property speaks of distinct controller numbers)
    for flip, zero_neg in ((False, True), (True, True), (False, False), (True, False)):
        ax = {"ABS_X": axis("cc", cc=1 if zero_neg else 0, ccNeg=0 if zero_neg else 1, off=0, offNeg=0, bidi=True, flip=flip, dzn=0, dzd=1),
              "ABS_RX": axis("cc", cc=118 if zero_neg else 119, ccNeg=119 if zero_neg else 118, off=4, offNeg=4, bidi=True,
                             centre=True, flip=flip, dzn=1, dzd=10),
              "ABS_Y": axis("cc", cc=2, ccNeg=3, off=8, offNeg=9, bidi=True, flip=not flip, dzn=1, dzd=10)}
        info = {"ABS_X": {"min": -128, "max": 127}, "ABS_RX": {"min": 0, "max": 255}, "ABS_Y": {"min": -32768, "max": 32767}}
        cfg = base_cfg(dChan=rng.randrange(16), actions={"KEY_F9": "cc_learning"},
                       maps=[{"name": "M1", "keys": {}, "axes": ax}], axinfo=info)
        walks = []
        for _ in range(6 if tier == "quick" else 30):
            w, learning = [], False
            for _ in range(150):
                if rng.random() < 0.06:
                    w.append({"ev": "release" if learning else "press", "k": "KEY_F9"})
                    learning = not learning
                    continue
                a = rng.choice(sorted(ax))
                mn, mx = info[a]["min"], info[a]["max"]
                mid = (mn + mx) // 2 if mn == 0 else 0
                raw = rng.choice([mn, mx, mid, mid + 1, rng.randint(mn, mx), rng.randint(mn, mx)])
                if not on_float_boundary(info[a], ax[a], raw):
                    w.append({"ev": "axis", "a": a, "raw": raw})
            if learning:
                w.append({"ev": "release", "k": "KEY_F9"})
            walks.append(w)
        batches.append({"cfg": cfg, "cfgmode": "literal", "sub": "", "walks": walks})
    # back-pressure on the MIDI output (the application's channel has 8 slots, a port can be slow): a one-slot channel
    # with a reader that takes 200 us per message - every message still has to arrive, the zero for the side left too
    for flip in (False, True):
        ax = {"ABS_X": axis("cc", cc=40, ccNeg=41, off=1, offNeg=2, bidi=True, flip=flip, dzn=0, dzd=1),
              "ABS_RX": axis("cc", cc=42, ccNeg=43, off=0, offNeg=5, bidi=True, centre=True, flip=not flip, dzn=1, dzd=10)}
        info = {"ABS_X": {"min": -128, "max": 127}, "ABS_RX": {"min": 0, "max": 255}}
        cfg = base_cfg(dChan=rng.randrange(16), maps=[{"name": "M1", "keys": {}, "axes": ax}], axinfo=info)
        walks = []
        for _ in range(4 if tier == "quick" else 20):
            w = []
            for _ in range(120):
                a = rng.choice(sorted(ax))
                mn, mx = info[a]["min"], info[a]["max"]
                raw = rng.choice([mn, mx, mn, mx, (mn + mx) // 2 + 1, rng.randint(mn, mx)])
                if not on_float_boundary(info[a], ax[a], raw):
                    w.append({"ev": "axis", "a": a, "raw": raw})
            walks.append(w)
        batches.append({"cfg": cfg, "cfgmode": "literal", "sub": "", "walks": walks, "outcap": 1, "slow_us": 200})
    return batches


def c08_batches(seed, tier, cfgmode="literal"):
    """Hat and stick axes emulating keys: signed / unsigned / flipped, with and without a negative note,
    distinct notes and channel offsets, random positions with direct jumps, interleaved with
    octave / semitone / channel actions."""
    rng = random.Random(seed * 733 + 1)
    batches = []
    n_walks, length = (10, 150) if tier == "quick" else (60, 500)
    acts = {"KEY_F1": "octave_down", "KEY_F2": "octave_up", "KEY_F3": "semitone_down", "KEY_F4": "semitone_up",
            "KEY_F5": "channel_down", "KEY_F6": "channel_up", "KEY_F9": "cc_learning"}
    for dzn, dzd in [(0, 1), (1, 10)] if tier == "quick" else [(0, 1), (1, 10), (1, 4), (1, 20)]:
        for flip in (False, True):
            ax = {
                "ABS_HAT0X": axis("key", note=60, noteNeg=62, off=0, offNeg=3, bidi=True, flip=flip, dzn=0, dzd=1),
                "ABS_X": axis("key", note=48, noteNeg=50, off=1, offNeg=0, bidi=True, flip=flip, dzn=dzn, dzd=dzd),
                "ABS_Z": axis("key", note=72, noteNeg=71, off=0, offNeg=0, bidi=True, flip=not flip, dzn=dzn, dzd=dzd),
                "ABS_RX": axis("key", note=100, off=15, bidi=False, flip=flip, dzn=dzn, dzd=dzd),
                "ABS_RZ": axis("key", note=5, noteNeg=122, off=0, offNeg=0, bidi=True, dzn=0, dzd=1),
                "ABS_GAS": axis("key", note=36, off=2, bidi=False, flip=False, dzn=dzn, dzd=dzd),     # trigger: rest = 0
                "ABS_BRAKE": axis("key", note=38, off=0, bidi=False, flip=True, dzn=0, dzd=1),       # flipped trigger
                # evdev code 1: its decimal code is a prefix of the codes of ABS_BRAKE (10) and ABS_HAT0X (16) - axes are independent
                "ABS_Y": axis("key", note=52, noteNeg=53, off=0, offNeg=1, bidi=True, flip=flip, dzn=dzn, dzd=dzd),
                "ABS_HAT0Y": axis("key", note=66, noteNeg=67, off=2, offNeg=0, bidi=True, dzn=0, dzd=1),
            }
            info = {"ABS_HAT0X": {"min": -1, "max": 1}, "ABS_X": {"min": -128, "max": 127}, "ABS_Z": {"min": 0, "max": 255},
                    "ABS_RX": {"min": -32768, "max": 32767}, "ABS_RZ": {"min": -100, "max": 100}, "ABS_GAS": {"min": 0, "max": 255},
                    "ABS_BRAKE": {"min": 0, "max": 1023}, "ABS_Y": {"min": -128, "max": 127}, "ABS_HAT0Y": {"min": -1, "max": 1}}
            cfg = base_cfg(dChan=rng.randrange(16), actions=acts, maps=[{"name": "M1", "keys": {}, "axes": ax}], axinfo=info)
            walks = []
            for _ in range(n_walks):
                w = []
                axes = rng.sample(sorted(ax), rng.choice([1, 2, 3, 9]))
                for _ in range(length):
                    if rng.random() < 0.15:
                        k = rng.choice(sorted(acts))
                        w += [{"ev": "press", "k": k}, {"ev": "release", "k": k}]
                        continue
                    a = rng.choice(axes)
                    mn, mx = info[a]["min"], info[a]["max"]
                    mid = (mn + mx) // 2 if mn == 0 else 0
                    span = mx - mid
                    r = rng.random()
                    if r < 0.3:
                        raw = rng.choice([mn, mx, mid])
                    elif r < 0.6:
                        raw = rng.randint(mn, mx)
                    else:  # around the on (50 %) and off (49 %) thresholds
                        t = rng.choice([span // 2, span * 49 // 100, span * dzn // dzd + span // 2])
                        raw = max(mn, min(mx, mid + rng.choice([1, -1]) * (t + rng.randint(-2, 2))))
                    if on_float_boundary(info[a], ax[a], raw):
                        continue
                    w.append({"ev": "axis", "a": a, "raw": raw})
                for a in axes:  # back to rest: C01 for axes
                    mn, mx = info[a]["min"], info[a]["max"]
                    if not ax[a]["bidi"] and mn == 0:      # a trigger rests at its released end
                        w.append({"ev": "axis", "a": a, "raw": mx if ax[a]["flip"] else mn})
                    else:
                        w.append({"ev": "axis", "a": a, "raw": (mn + mx) // 2 + (1 if mn == 0 else 0) if mn == 0 else 0})
                if rng.random() < 0.5:
                    w.append({"ev": "disconnect"})
                walks.append(w)
            batches.append({"cfg": cfg, "cfgmode": cfgmode, "sub": "", "walks": walks})
    return batches


def unnamed_axis_batches(seed, tier, cfgmode="literal"):
    """Axes whose evdev codes have no symbolic name (ABS_MISC+1.., written x29, x2a .. in a configuration): the extra
    axes of many-axis controllers.  Each emulates its own keys; deflections overlap in time."""
    rng = random.Random(seed * 941 + 13)
    names = ["x29", "x2a", "x2b", "x3e"]
    batches = []
    for flip in (False, True):
        ax = {a: axis("key", note=40 + 5 * i, noteNeg=80 + 5 * i, off=i, offNeg=(i + 2) % 16, bidi=True, flip=flip, dzn=0, dzd=1)
              for i, a in enumerate(names)}
        info = {a: {"min": -100, "max": 100} for a in names}
        cfg = base_cfg(dChan=rng.randrange(16), maps=[{"name": "M1", "keys": {}, "axes": ax}], axinfo=info)
        walks = []
        for _ in range(6 if tier == "quick" else 40):
            w = []
            for _ in range(80):
                w.append({"ev": "axis", "a": rng.choice(names), "raw": rng.choice([-100, 100, 0, 0, 70, -70, 30])})
            w += [{"ev": "axis", "a": a, "raw": 0} for a in names]
            walks.append(w)
        batches.append({"cfg": cfg, "cfgmode": cfgmode, "sub": "", "walks": walks})
    return batches


def akey_mapping_batches(seed, tier, cfgmode="literal"):
    """Emulated keys held through mapping switches: every mapping gives every axis a key-type definition
    (same orientation), with other notes, channel offsets, dead-zones and - in some - no note on the
    negative side; mapping / octave / channel actions are tapped while axes are deflected."""
    rng = random.Random(seed * 389 + 17)
    batches = []
    n_walks, length = (10, 150) if tier == "quick" else (60, 500)
    acts = {"KEY_F1": "octave_down", "KEY_F2": "octave_up", "KEY_F5": "channel_down", "KEY_F6": "channel_up",
            "KEY_F11": "mapping_down", "KEY_F12": "mapping_up", "KEY_F9": "cc_learning"}
    info = {"ABS_HAT0X": {"min": -1, "max": 1}, "ABS_X": {"min": -128, "max": 127}, "ABS_Z": {"min": 0, "max": 255},
            "ABS_RZ": {"min": -100, "max": 100}}
    for nmaps in (2, 3):
        for flip in (False, True):
            maps = []
            for m in range(nmaps):
                ax = {}
                for i, a in enumerate(sorted(info)):
                    bidi = rng.random() < 0.6
                    ax[a] = axis("key", note=40 + 10 * i + m, noteNeg=(90 + 10 * i + m) % 128 if bidi else 0, off=rng.randrange(16),
                                 offNeg=rng.randrange(16) if bidi else 0, bidi=bidi, flip=flip,
                                 dzn=0 if a == "ABS_HAT0X" else rng.choice([0, 1]), dzd=rng.choice([10, 4]))
                maps.append({"name": "M%d" % (m + 1), "keys": {}, "axes": ax})
            if all(not mp["axes"]["ABS_X"]["bidi"] for mp in maps):
                maps[0]["axes"]["ABS_X"].update(bidi=True, noteNeg=99, offNeg=5)
            cfg = base_cfg(dChan=rng.randrange(16), dMap=rng.randrange(nmaps) + 1, actions=acts, maps=maps, axinfo=info)
            walks = []
            for _ in range(n_walks):
                w = []
                axes = rng.sample(sorted(info), rng.choice([1, 2, 4]))
                for _ in range(length):
                    if rng.random() < 0.25:
                        k = rng.choice(sorted(acts) + ["KEY_F11", "KEY_F12"])
                        w += [{"ev": "press", "k": k}, {"ev": "release", "k": k}]
                        continue
                    a = rng.choice(axes)
                    mn, mx = info[a]["min"], info[a]["max"]
                    mid = (mn + mx) // 2 if mn == 0 else 0
                    span = mx - mid
                    r = rng.random()
                    if r < 0.5:
                        raw = rng.choice([mn, mx, mid])
                    elif r < 0.7:
                        raw = rng.randint(mn, mx)
                    else:
                        t = rng.choice([span // 2, span * 49 // 100])
                        raw = max(mn, min(mx, mid + rng.choice([1, -1]) * (t + rng.randint(-2, 2))))
                    if any(on_float_boundary(info[a], mp["axes"][a], raw) for mp in maps):
                        continue
                    w.append({"ev": "axis", "a": a, "raw": raw})
                for a in axes:
                    mn, mx = info[a]["min"], info[a]["max"]
                    w.append({"ev": "axis", "a": a, "raw": (mn + mx) // 2 + 1 if mn == 0 else 0})
                if rng.random() < 0.5:
                    w.append({"ev": "disconnect"})
                walks.append(w)
            batches.append({"cfg": cfg, "cfgmode": cfgmode, "sub": "", "walks": walks})
    return batches


def panic_axis_batches(seed, tier):
    """Panic triggered by axes that emulate actions: a trigger and a stick side carry panic in some mappings and are
    controllers, keys or absent in the others; mapping switches and cc-learning (which drops reports near the
    centre) are interleaved, note keys keep something sounding."""
    rng = random.Random(seed * 211 + 5)
    n_walks, length = (12, 150) if tier == "quick" else (80, 400)
    batches = []
    info = {"ABS_Z": {"min": 0, "max": 255}, "ABS_RY": {"min": -128, "max": 127}, "ABS_HAT0X": {"min": -1, "max": 1}}
    keys = {"BTN_A": {"n": 60, "o": 0}, "BTN_B": {"n": 64, "o": 1}}
    acts = {"KEY_F9": "cc_learning", "KEY_F11": "mapping_down", "KEY_F12": "mapping_up", "KEY_F2": "channel_up", "KEY_ESC": "panic"}
    for flip in (False, True):
        for other in ("cc", "key", "absent"):
            a1 = {"ABS_Z": axis("action", act="panic", bidi=False, flip=flip, dzn=0, dzd=1),
                  "ABS_RY": axis("action", act="octave_up", actNeg="panic", bidi=True, flip=flip, dzn=1, dzd=10),
                  "ABS_HAT0X": axis("action", act="panic", actNeg="channel_down", bidi=True)}
            if other == "cc":
                a2 = {"ABS_Z": axis("cc", cc=9, dzn=0, dzd=1), "ABS_RY": axis("cc", cc=10, ccNeg=11, bidi=True),
                      "ABS_HAT0X": axis("action", act="panic", actNeg="channel_down", bidi=True)}
            elif other == "key":
                # emulated keys on other channels than the current one: a panic does not silence them, letting go must
                a2 = {"ABS_Z": axis("key", note=40, off=1, bidi=False, flip=flip), "ABS_RY": axis("key", note=41, noteNeg=42, off=3, offNeg=15, bidi=True),
                      "ABS_HAT0X": axis("action", act="channel_up", actNeg="panic", bidi=True)}
            else:
                a2 = {"ABS_HAT0X": axis("action", act="panic", actNeg="panic", bidi=True)}
            cfg = base_cfg(mode=rng.choice(["off", "no_repeat", "interrupt", "retrigger"]), dChan=rng.randrange(16), dMap=1, actions=acts,
                           maps=[{"name": "A", "keys": keys, "axes": a1}, {"name": "B", "keys": keys, "axes": a2}], axinfo=info)
            walks = []
            for _ in range(n_walks):
                w, held, learning = [], set(), False
                for _ in range(length):
                    r = rng.random()
                    if r < 0.5:
                        a = rng.choice(sorted(info))
                        mn, mx = info[a]["min"], info[a]["max"]
                        mid = (mn + mx) // 2 if mn == 0 else 0
                        raw = rng.choice([mn, mx, mid, mid, rng.randint(mn, mx), mid + (mx - mid) // 2 + rng.randint(-1, 1)])
                        raw = max(mn, min(mx, raw))
                        if any(a in m["axes"] and on_float_boundary(info[a], m["axes"][a], raw) for m in cfg["maps"]):
                            continue
                        w.append({"ev": "axis", "a": a, "raw": raw})
                    elif r < 0.7:
                        k = rng.choice(sorted(keys))
                        w.append({"ev": "release" if k in held else "press", "k": k})
                        held ^= {k}
                    elif r < 0.8:
                        w.append({"ev": "release" if learning else "press", "k": "KEY_F9"})
                        learning = not learning
                    else:
                        k = rng.choice(["KEY_F11", "KEY_F12", "KEY_F12", "KEY_F2", "KEY_ESC"])
                        w += [{"ev": "press", "k": k}, {"ev": "release", "k": k}]
                for k in sorted(held):      # everything let go at the end: silence
                    w.append({"ev": "release", "k": k})
                if learning:
                    w.append({"ev": "release", "k": "KEY_F9"})
                for a in sorted(info):
                    mn, mx = info[a]["min"], info[a]["max"]
                    w.append({"ev": "axis", "a": a, "raw": (mn + mx) // 2 + 1 if mn == 0 else 0})
                walks.append(w)
            batches.append({"cfg": cfg, "cfgmode": "literal", "sub": "", "walks": walks})
    return batches


def two_handler_key_batches(seed, tier):
    """A stick that emulates keys and another handler of the same device (a touchpad) that reports THE SAME axis codes as
    controllers: the reports are interleaved, the touchpad often reports the value the stick will report next (0 above all)."""
    rng = random.Random(seed * 919 + 41)
    batches = []
    for flip in (False, True):
        ax = {"ABS_X": axis("key", note=60, noteNeg=58, off=0, offNeg=2, bidi=True, flip=flip, dzn=1, dzd=10),
              "ABS_Y": axis("key", note=64, noteNeg=0, off=1, bidi=False, dzn=0, dzd=1),
              "Touchpad:ABS_X": axis("cc", cc=30, off=3, dzn=1, dzd=10),
              "Touchpad:ABS_Y": axis("pitch_bend", off=4, dzn=0, dzd=1)}
        info = {a: {"min": -128, "max": 127} for a in ax}
        cfg = base_cfg(dChan=rng.randrange(16), actions={"KEY_F2": "octave_up", "KEY_F1": "octave_down"},
                       maps=[{"name": "M1", "keys": {}, "axes": ax}], axinfo=info)
        walks = []
        for _ in range(6 if tier == "quick" else 40):
            w = []
            for _ in range(120):
                a = rng.choice(["ABS_X", "ABS_Y"])
                v = rng.choice([-128, 127, 100, -100, 64, -70])
                w.append({"ev": "axis", "a": a, "raw": v})
                for _ in range(rng.randrange(0, 3)):
                    w.append({"ev": "axis", "a": "Touchpad:" + a, "raw": rng.choice([0, 0, 5, v, 127, -128])})
                if rng.random() < 0.2:
                    k = rng.choice(["KEY_F1", "KEY_F2"])
                    w += [{"ev": "press", "k": k}, {"ev": "release", "k": k}]
                w.append({"ev": "axis", "a": a, "raw": rng.choice([0, 0, 0, 3, -5])})
            for a in ("ABS_X", "ABS_Y"):
                w.append({"ev": "axis", "a": a, "raw": 1})
                w.append({"ev": "axis", "a": a, "raw": 0})
            walks.append(w)
        batches.append({"cfg": cfg, "cfgmode": "literal", "sub": "", "walks": walks})
    return batches


def edge_pitch_collisions(seed, tier):
    """Keys that share pitches AT THE ENDS of the MIDI range, octave and semitone keys: collisions while some holders are
    transposed out of range (their presses are silent), released and pressed again in every order."""
    rng = random.Random(seed * 677 + 23)
    batches = []
    n_walks, length = (10, 300) if tier == "quick" else (60, 600)
    for mode in ["no_repeat", "interrupt", "retrigger", "off"]:
        for base in (120, 5):
            keys = {"KEY_Q": {"n": base, "o": 0}, "KEY_W": {"n": base, "o": 0}, "KEY_E": {"n": base + 1, "o": 0}, "KEY_R": {"n": base - 4, "o": 0}}
            cfg = base_cfg(mode=mode, vel=90, dChan=rng.randrange(16),
                           actions={"KEY_F1": "octave_down", "KEY_F2": "octave_up", "KEY_F3": "semitone_down", "KEY_F4": "semitone_up"},
                           maps=[{"name": "M1", "keys": keys, "axes": {}}])
            walks = [random_key_walk(rng, cfg, length, sorted(keys), sorted(cfg["actions"]), p_action=0.25, oct_bound=1, semi_bound=2)
                     for _ in range(n_walks)]
            batches.append({"cfg": cfg, "cfgmode": "literal", "sub": "", "walks": walks})
    return batches


def c05_batches(seed, tier):
    """Boundary configurations as the parser may let them through: default channel, velocity, key and
    axis channel offsets, controller numbers at and beyond their ranges.  The harness skips the ones
    ParseData rejects; each accepted one runs a fixed script: every key, panic on the first channel and
    after 16 channel-ups, every axis over its end stops, centre, dead-zone edge and a sweep."""
    rng = random.Random(seed * 977 + 3)
    batches = []
    chans = [1, 16, 0, 17, -1, 255, 256, 257]
    vels = [64, 0, 1, 127, 128]
    koffs = [0, 15]
    aoffs = [0, 15, 16, 255, 256]
    ccs = [0, 119, 120, 127]
    combos = []
    for ch in chans:
        combos.append((ch, 64, 15, 15, 119, 118))
    for v in vels:
        combos.append((1, v, 0, 0, 0, 1))
    for ao in aoffs:
        for cc in ccs:
            combos.append((16, 127, 15, ao, cc, cc + 1 if cc < 119 else cc - 1))
    # the negative controller / negative note on their own: valid positive side, boundary negative side
    for ccn in (0, 119, 120, 127, 128, 200, 255, 256, 300, -1):
        combos.append((1, 64, 0, 0, 5, ccn))
        combos.append((16, 64, 0, 15, 119, ccn))
    if tier == "thorough":
        for _ in range(60):
            combos.append((rng.choice(chans), rng.choice(vels), rng.choice(koffs), rng.choice(aoffs), rng.choice(ccs),
                           rng.choice([0, 119, 120, 128, 255, 256])))
    for ch, vel, ko, ao, cc, ccn in combos:
        ax = {
            "ABS_X": axis("cc", cc=cc, ccNeg=ccn, off=ao, offNeg=ao, bidi=True, dzn=1, dzd=20),
            "ABS_Y": axis("pitch_bend", off=ao, flip=True, dzn=1, dzd=10),
            "ABS_Z": axis("cc", cc=cc, off=ao, centre=True, dzn=1, dzd=2),
            "ABS_RX": axis("key", note=127, noteNeg=ccn if 0 <= ccn <= 127 else 5, off=ao, offNeg=ao, bidi=True, dzn=0, dzd=1),
            "ABS_RZ": axis("cc", cc=cc, off=ao, flip=True, dzn=99, dzd=100),
        }
        info = {"ABS_X": {"min": -128, "max": 127}, "ABS_Y": {"min": -32768, "max": 32767}, "ABS_Z": {"min": 0, "max": 255},
                "ABS_RX": {"min": -1, "max": 1}, "ABS_RZ": {"min": 0, "max": 1023}}
        cfg = base_cfg(mode="interrupt", vel=vel, dChan=ch - 1,
                       actions={"KEY_ESC": "panic", "KEY_F6": "channel_up", "KEY_F5": "channel_down", "KEY_F2": "octave_up"},
                       maps=[{"name": "M1", "keys": {"KEY_A": {"n": 0, "o": ko}, "KEY_S": {"n": 127, "o": ko}, "KEY_D": {"n": 60, "o": 0}},
                              "axes": ax}], axinfo=info)
        w = []
        def tap(k):
            w.extend([{"ev": "press", "k": k}, {"ev": "release", "k": k}])
        def sweep():
            for a in sorted(ax):
                mn, mx = info[a]["min"], info[a]["max"]
                pts = [mn, mx, 0 if mn < 0 else (mn + mx) // 2, (mn + mx) // 2 + 1, mn + (mx - mn) // 20, mx - (mx - mn) // 20,
                       mn + 1, mx - 1] + [mn + (mx - mn) * i // 23 for i in range(24)]
                for p in pts:
                    if not on_float_boundary(info[a], ax[a], p):
                        w.append({"ev": "axis", "a": a, "raw": p})
        for k in ("KEY_A", "KEY_S", "KEY_D"):
            tap(k)
        tap("KEY_ESC")
        sweep()
        for _ in range(16):
            tap("KEY_F6")
        for k in ("KEY_A", "KEY_S", "KEY_D"):
            tap(k)
        tap("KEY_ESC")
        sweep()
        for _ in range(17):
            tap("KEY_F5")
        tap("KEY_A")
        tap("KEY_ESC")
        w.append({"ev": "disconnect"})
        batches.append({"cfg": cfg, "cfgmode": "toml", "sub": "", "optional": True, "walks": [w]})
    # every current channel x every kind of axis / key with channel offsets 1, 3, 8, 15: each sum (channel + offset),
    # 16 exactly included, for Control Change, Pitch Bend and Note status bytes
    for flip in (False, True):
        ax = {"ABS_X": axis("cc", cc=20, ccNeg=21, off=1, offNeg=15, bidi=True, flip=flip, dzn=0, dzd=1),
              "ABS_Y": axis("pitch_bend", off=3, flip=flip, dzn=1, dzd=10),
              "ABS_Z": axis("cc", cc=22, off=8, centre=False, dzn=0, dzd=1),
              "ABS_RX": axis("key", note=100, noteNeg=27, off=15, offNeg=1, bidi=True, dzn=0, dzd=1),
              "ABS_RZ": axis("pitch_bend", off=15, dzn=0, dzd=1),
              "ABS_RY": axis("pitch_bend", off=rng.choice([2, 5, 9, 12]), flip=not flip, dzn=0, dzd=1)}
        info = {"ABS_X": {"min": -128, "max": 127}, "ABS_Y": {"min": -32768, "max": 32767}, "ABS_Z": {"min": 0, "max": 255},
                "ABS_RX": {"min": -1, "max": 1}, "ABS_RZ": {"min": 0, "max": 1023}, "ABS_RY": {"min": -100, "max": 100}}
        cfg = base_cfg(mode="interrupt", vel=100, dChan=rng.randrange(16),
                       actions={"KEY_ESC": "panic", "KEY_F6": "channel_up", "KEY_F5": "channel_down"},
                       maps=[{"name": "M1", "keys": {"KEY_A": {"n": 0, "o": 1}, "KEY_S": {"n": 127, "o": 8}, "KEY_D": {"n": 60, "o": 15},
                                                     "KEY_F": {"n": 61, "o": 3}}, "axes": ax}], axinfo=info)
        w = []
        for _ in range(16):
            w += [{"ev": "press", "k": "KEY_F5"}, {"ev": "release", "k": "KEY_F5"}]
        for ch in range(16):
            for k in ("KEY_A", "KEY_S", "KEY_D", "KEY_F"):
                w += [{"ev": "press", "k": k}, {"ev": "release", "k": k}]
            for a in sorted(ax):
                mn, mx = info[a]["min"], info[a]["max"]
                for p in (mx, mn, 0 if mn < 0 else (mn + mx) // 2, mx - (mx - mn) // 3):
                    if not on_float_boundary(info[a], ax[a], p):
                        w.append({"ev": "axis", "a": a, "raw": p})
            if ch % 5 == 0:
                w += [{"ev": "press", "k": "KEY_ESC"}, {"ev": "release", "k": "KEY_ESC"}]
            w += [{"ev": "press", "k": "KEY_F6"}, {"ev": "release", "k": "KEY_F6"}]
        w.append({"ev": "disconnect"})
        batches.append({"cfg": cfg, "cfgmode": "toml", "sub": "", "walks": [w]})
    return batches


def action_axis_batches(seed, tier):
    """Axes emulating actions (hat: octave up/down, mapping up/down, channel, panic, cc-learning) next to note keys and a
    controller axis, with mapping switches: exercises AxisAction, the pair-reset rule through axes, and the shared
    lastAnalogValue across mappings.  (No listed property is about action emulation itself; these lives are judged by
    the general predicates: state agreement, silence of state actions, well-formedness, no stuck notes.)"""
    rng = random.Random(seed * 59 + 13)
    n_walks, length = (12, 120) if tier == "quick" else (100, 400)
    batches = []
    for flip in (False, True):
        for sub in ("", "Gamepad"):
            ax1 = {
                "ABS_HAT0X": axis("action", act="octave_up", actNeg="octave_down", bidi=True, flip=flip),
                "ABS_HAT0Y": axis("action", act="mapping_up", actNeg="mapping_down", bidi=True, flip=not flip),
                "ABS_RX": axis("action", act="channel_up", actNeg="channel_down", bidi=True, dzn=1, dzd=10),
                "ABS_RY": axis("action", act="panic", actNeg="cc_learning", bidi=True),
                "ABS_RZ": axis("action", act="semitone_up", bidi=False),
                "ABS_X": axis("cc", cc=7, ccNeg=8, bidi=True, dzn=1, dzd=10),
            }
            ax2 = dict(ax1)
            ax2["ABS_X"] = axis("pitch_bend", dzn=1, dzd=4, flip=True)
            ax2["ABS_RZ"] = axis("cc", cc=9, dzn=0, dzd=1)
            info = {"ABS_HAT0X": {"min": -1, "max": 1}, "ABS_HAT0Y": {"min": -1, "max": 1}, "ABS_RX": {"min": -128, "max": 127},
                    "ABS_RY": {"min": -128, "max": 127}, "ABS_RZ": {"min": 0, "max": 255}, "ABS_X": {"min": -128, "max": 127}}
            keys = {"BTN_A": {"n": 60, "o": 0}, "BTN_B": {"n": 60, "o": 1}, "BTN_X": {"n": 0, "o": 0}, "BTN_Y": {"n": 127, "o": 15}}
            cfg = base_cfg(mode=rng.choice(["off", "no_repeat", "interrupt", "retrigger"]), vel=rng.choice([1, 99, 127]),
                           dChan=rng.randrange(16), dMap=rng.choice([1, 2]),
                           actions={"BTN_START": "channel_up", "BTN_SELECT": "channel_down", "BTN_MODE": "panic"},
                           maps=[{"name": "A", "keys": keys, "axes": ax1}, {"name": "B", "keys": {"BTN_A": {"n": 62, "o": 0}}, "axes": ax2}],
                           axinfo=info)
            walks = []
            for _ in range(n_walks):
                w, held, octv, semi = [], set(), 0, 0
                for _ in range(length):
                    r = rng.random()
                    if r < 0.45:
                        a = rng.choice(sorted(info))
                        mn, mx = info[a]["min"], info[a]["max"]
                        mid = (mn + mx) // 2 if mn == 0 else 0
                        raw = rng.choice([mn, mx, mid, rng.randint(mn, mx), mid + (mx - mid) // 2 + rng.randint(-1, 1)])
                        raw = max(mn, min(mx, raw))
                        # keep octave / semitone within the bounds the other checks explore
                        if a == "ABS_HAT0X" and raw != 0 and abs(octv) >= 8:
                            raw = 0
                        if a == "ABS_HAT0X":
                            octv += (1 if raw > 0 else -1 if raw < 0 else 0) * (-1 if flip else 1)
                        if a == "ABS_RZ" and abs(semi) >= 20:
                            continue
                        if a == "ABS_RZ" and raw > 191:
                            semi += 1
                        if any(on_float_boundary(info[a], m["axes"][a], raw) for m in cfg["maps"]):
                            continue
                        w.append({"ev": "axis", "a": a, "raw": raw})
                    elif r < 0.75:
                        k = rng.choice(sorted(keys))
                        if k in held:
                            held.discard(k)
                            w.append({"ev": "release", "k": k})
                        else:
                            held.add(k)
                            w.append({"ev": "press", "k": k})
                    else:
                        k = rng.choice(["BTN_START", "BTN_SELECT", "BTN_MODE"])
                        w += [{"ev": "press", "k": k}, {"ev": "release", "k": k}]
                w.append({"ev": "disconnect"})
                walks.append(w)
            batches.append({"cfg": cfg, "cfgmode": "literal", "sub": sub, "walks": walks})
    return batches
