"""Structured descriptions of device configuration files (C09, C10): generation, single-field
invalidation and rendering as TOML text.  The description is what spec/ConfigFile.tla reasons
about; this module is the only place that knows TOML syntax for them."""
import copy
import random

KEYS = {"KEY_ESC": 1, "KEY_1": 2, "KEY_Q": 16, "KEY_W": 17, "KEY_E": 18, "KEY_A": 30, "KEY_S": 31, "KEY_D": 32, "KEY_Z": 44,
        "KEY_X": 45, "KEY_F1": 59, "KEY_F2": 60, "KEY_F3": 61, "KEY_F4": 62, "KEY_F5": 63, "KEY_F6": 64, "KEY_F11": 87,
        "KEY_F12": 88, "KEY_LEFTALT": 56, "BTN_A": 0x130, "BTN_B": 0x131, "BTN_TL": 0x136, "BTN_SELECT": 0x13a}
ABS = {"ABS_X": 0, "ABS_Y": 1, "ABS_Z": 2, "ABS_RX": 3, "ABS_RY": 4, "ABS_RZ": 5, "ABS_HAT0X": 0x10, "ABS_HAT0Y": 0x11}
ACTIONS = ["mapping_up", "mapping_down", "mapping", "octave_up", "octave_down", "semitone_up", "semitone_down", "channel_up",
           "channel_down", "channel", "multinote", "panic", "cc_learning", "exit"]
MODES = ["off", "no_repeat", "interrupt", "retrigger"]
TYPES = ["cc", "pitch_bend", "key", "action"]
PC = ["C", "C#", "D", "D#", "E", "F", "F#", "G", "G#", "A", "A#", "B"]
DZ = ["0", "0.05", "0.1", "0.25", "0.5", "0.99"]


def note_text(rng, n, byname=None):
    if byname is None:
        byname = rng.random() < 0.5
    if not byname:
        return str(n)
    s = PC[n % 12] + str(n // 12 - 2)
    return s.lower() if rng.random() < 0.3 else s


def keyspec(rng, table, name=None, hexp=0.25):
    name = name or rng.choice(sorted(table))
    code = table[name]
    if rng.random() < hexp:
        return {"name": "x%x" % code, "code": code}
    return {"name": name, "code": code}


def analog_entry(rng, name, typ):
    e = {"type": typ, "cc": 0, "hascc": False, "ccn": 0, "hasccn": False, "note": 0, "hasnote": False, "noten": 0,
         "hasnoten": False, "off": 0, "hasoff": False, "offn": 0, "hasoffn": False, "act": "", "hasact": False, "actn": "",
         "hasactn": False, "flip": False, "hasflip": False, "centre": False, "hascentre": False}
    e.update(keyspec(rng, ABS, name))
    if typ == "cc":
        e.update(hascc=True, cc=rng.choice([0, 1, 7, 64, 119]))
        if rng.random() < 0.5:
            e.update(hasccn=True, ccn=rng.choice([0, 2, 65, 118, 119]))
    if typ == "key":
        e.update(hasnote=True, note=rng.choice([0, 14, 60, 127]))
        if rng.random() < 0.6:
            e.update(hasnoten=True, noten=rng.choice([0, 15, 61, 127]))
    if typ == "action":
        e.update(hasact=True, act=rng.choice(ACTIONS))
        if rng.random() < 0.7:
            e.update(hasactn=True, actn=rng.choice(ACTIONS))
    if typ != "action":
        if rng.random() < 0.5:
            e.update(hasoff=True, off=rng.choice([0, 1, 15]))
        if typ != "pitch_bend" and rng.random() < 0.5:
            e.update(hasoffn=True, offn=rng.choice([0, 2, 15]))
    if rng.random() < 0.4:
        e.update(hasflip=True, flip=rng.random() < 0.7)
    if rng.random() < 0.3:
        e.update(hascentre=True, centre=rng.random() < 0.7)
    return e


def valid_desc(rng, nmaps=None, full=False):
    nmaps = nmaps or rng.choice([1, 1, 2, 3])
    maps = []
    for mi in range(nmaps):
        subs = rng.sample(["", "Keyboard", "Consumer Control", "Mouse"], rng.choice([1, 1, 2]))
        keys = []
        for sub in subs:
            names = rng.sample(sorted(KEYS), rng.choice([1, 3, 6]))
            km = []
            for nm in names:
                n = rng.choice([0, 1, 36, 60, 61, 126, 127]) if rng.random() < 0.5 else rng.randrange(128)
                k = keyspec(rng, KEYS, nm)
                hasoff = rng.random() < 0.3
                k.update(text=note_text(rng, n), val=n, off=rng.choice([0, 1, 15]) if hasoff else 0, hasoff=hasoff)
                km.append(k)
            keys.append({"sub": sub, "map": km})
        analog = []
        for sub in rng.sample(["", "Gamepad", "Stick"], rng.choice([0, 1, 1, 2]) if not full else 2):
            names = rng.sample(sorted(ABS), rng.choice([1, 2, 4]) if not full else 4)
            am = [analog_entry(rng, nm, TYPES[(i + mi) % 4] if full else rng.choice(TYPES)) for i, nm in enumerate(names)]
            dz = [dict(keyspec(rng, ABS, nm), v=rng.choice(DZ)) for nm in rng.sample(names, rng.choice([0, 1, len(names)]))]
            analog.append({"sub": sub, "dd": rng.choice(["none"] + DZ), "map": am, "dz": dz})
        maps.append({"name": "Map%d" % (mi + 1), "keys": keys, "analog": analog})
    actions = []
    for nm in rng.sample(sorted(KEYS), rng.choice([0, 2, 5])):
        a = keyspec(rng, KEYS, nm)
        a["a"] = rng.choice(ACTIONS)
        actions.append(a)
    return {
        "mode": rng.choice(MODES),
        "exit": [keyspec(rng, KEYS, nm) for nm in rng.sample(sorted(KEYS), rng.choice([0, 0, 1, 2, 3]))],
        "ident": {"bus": rng.choice([0, 3, 5]), "vendor": rng.choice([0, 0x46d, 0xffff]), "product": rng.randrange(65536),
                  "version": rng.choice([0, 0x111]), "uniq": rng.choice(["", "aa:bb:cc"])},
        "defaults": {"octave": rng.choice([0, 0, -2, 3]), "semitone": rng.choice([0, 0, -5, 7]), "channel": rng.choice([1, 1, 10, 16]),
                     "mapping": rng.choice(maps)["name"], "velocity": rng.choice([64, 0, 1, 127])},
        "actions": actions,
        "colors": {k: rng.choice([0, 0xffffff, 0x123456, 0xff0000]) for k in
                   ("white", "black", "c", "unavailable", "other", "active", "active_external")},
        "hascolors": rng.random() < 0.5,
        "maps": maps,
        "extra": [],
    }


INVALIDATIONS = ["unknown_field", "unknown_key", "bad_note_name", "unknown_action", "unknown_type", "unknown_mode",
                 "note_oor", "cc_oor", "offset_oor", "velocity_oor", "channel_oor", "default_mapping_missing"]


_cycle = {}


def pick(key, lst):
    """Cycle through a list of bad values (instead of sampling it): every listed value occurs in every run."""
    i = _cycle.get(key, 0)
    _cycle[key] = i + 1
    return lst[i % len(lst)]


def invalidate(d0, kind, rng):
    """One single-field invalidation; returns None when the description has no place for it."""
    d = copy.deepcopy(d0)
    allkeys = [k for m in d["maps"] for s in m["keys"] for k in s["map"]]
    allan = [a for m in d["maps"] for s in m["analog"] for a in s["map"]]
    if kind == "unknown_field":
        levels = ["top", "defaults", "identifier", "mapping"]
        if any(m["keys"] for m in d["maps"]):
            levels.append("keys")
        if any(m["analog"] for m in d["maps"]):
            levels.append("analog")
        if allan:
            levels.append("analogmap")
        if d["hascolors"]:
            levels.append("open_rgb")
        d["extra"] = [{"level": rng.choice(levels), "name": rng.choice(["velcity", "foo", "Name", "colour", "deadzone"])}]
    elif kind == "unknown_key":
        places = []
        if allkeys:
            places.append("keys")
        if d["actions"]:
            places.append("actions")
        if d["exit"]:
            places.append("exit")
        if allan:
            places += ["analog", "dz"]
        if not places:
            return None
        pl = rng.choice(places)
        bad = pick("key", ["KEY_NOPE", "ABS_Q", "xZZ", "", "key_a", "x12345", "xx1e", "xxx0", "x", "X1e", "x-1", "x 1e", "0x1e"])
        if pl == "keys":
            rng.choice(allkeys).update(name=bad, code=-1)
        elif pl == "actions":
            rng.choice(d["actions"]).update(name=bad, code=-1)
        elif pl == "exit":
            rng.choice(d["exit"]).update(name=bad, code=-1)
        elif pl == "analog":
            rng.choice(allan).update(name=bad, code=-1)
        else:
            subs = [s for m in d["maps"] for s in m["analog"]]
            rng.choice(subs)["dz"].append({"name": bad, "code": -1, "v": "0.1"})
    elif kind == "bad_note_name":
        if not allkeys:
            return None
        rng.choice(allkeys).update(text=pick("note", ["H3", "E#3", "B#0", "C9", "G#8", "C-3", "c", "C#", "C 3", "3C", "Do3", "c3 ", "",
                                                        "c20", "d#21", "g29", "c-23", "a63", "C08", "c-02", "C254", "c10", "Cb3", "c##3", "c3#", "#c3"]), val=-1)
    elif kind == "unknown_action":
        places = (["actions"] if d["actions"] else []) + (["analog"] if [a for a in allan if a["type"] == "action"] else [])
        if not places:
            return None
        bad = pick("action", ["octave", "Panic", "", "learn", "octave_up ", " panic", "octave-up", "octaveup", "OCTAVE_UP"])
        if rng.choice(places) == "actions":
            rng.choice(d["actions"])["a"] = bad
        else:
            a = rng.choice([a for a in allan if a["type"] == "action"])
            if a["hasactn"] and rng.random() < 0.5:
                a["actn"] = bad
            else:
                a["act"] = bad
    elif kind == "unknown_type":
        if not allan:
            return None
        rng.choice(allan)["type"] = pick("type", ["CC", "pitchbend", "", "note", "button", "cc ", "pitch-bend", "keys", "Key"])
    elif kind == "unknown_mode":
        d["mode"] = pick("mode", ["", "Off", "legato", "no-repeat", "interupt", "interrupt ", "Interrupt", "norepeat", "x" * 40])
    elif kind == "note_oor":
        places = (["keys"] if allkeys else []) + (["analog"] if [a for a in allan if a["type"] == "key"] else [])
        if not places:
            return None
        v = pick("noteoor", [-1, 128, 255, 256, 1000, 129, 383, 65536 + 60])
        if rng.choice(places) == "keys":
            rng.choice(allkeys).update(text=str(v), val=v)
        else:
            a = rng.choice([a for a in allan if a["type"] == "key"])
            if a["hasnoten"] and rng.random() < 0.5:
                a["noten"] = v
            else:
                a["note"] = v
    elif kind == "cc_oor":
        c = [a for a in allan if a["type"] == "cc"]
        if not c:
            return None
        a = rng.choice(c)
        v = pick("ccoor", [-1, 128, 255, 256, 257, 120 + 256, 65536 + 5])
        if a["hasccn"] and rng.random() < 0.5:
            a["ccn"] = v
        else:
            a["cc"] = v
    elif kind == "offset_oor":
        c = [a for a in allan if a["type"] != "action"]
        places = (["keys"] if allkeys else []) + (["analog"] if c else [])
        if not places:
            return None
        v = pick("offoor", [-1, 16, 99, 255, 256, 17, 257, 65536 + 1])
        if rng.choice(places) == "keys":
            rng.choice(allkeys).update(off=v, hasoff=True)
        else:
            a = rng.choice(c)
            if a["type"] != "pitch_bend" and rng.random() < 0.5:
                a.update(offn=v, hasoffn=True)
            else:
                a.update(off=v, hasoff=True)
    elif kind == "velocity_oor":
        d["defaults"]["velocity"] = pick("veloor", [-1, 128, 255, 1000, 256, 256 + 64, 65536 + 64])
    elif kind == "channel_oor":
        d["defaults"]["channel"] = pick("chanoor", [0, 17, -1, 255, 256, 257, 272, 65536 + 1])
    elif kind == "default_mapping_missing":
        d["defaults"]["mapping"] = pick("mapmiss", ["", "Nope", d["maps"][0]["name"].lower(), d["maps"][0]["name"] + " ", " " + d["maps"][-1]["name"]])
    return d


def q(s):
    return '"' + s.replace("\\", "\\\\").replace('"', '\\"') + '"'


def bare(k):
    import re
    return k if re.fullmatch(r"[A-Za-z0-9_-]+", k) else q(k)


def render(d, spelling="inline"):
    """spelling: inline (analog entries as inline tables) | header (sub-tables) | dotted (dotted keys)."""
    out = []
    ex = {}
    for e in d["extra"]:
        ex.setdefault(e["level"], []).append(e["name"])
    def extras(level, indent="  "):
        for n in ex.get(level, []):
            out.append("%s%s = 1" % (indent, bare(n)))
    out.append("collision_mode = %s" % q(d["mode"]))
    out.append("exit_sequence = [%s]" % ", ".join(q(k["name"]) for k in d["exit"]))
    extras("top", "")
    out.append("")
    if spelling == "dotted":
        for k in ("bus", "vendor", "product", "version"):
            out.append("identifier.%s = %d" % (k, d["ident"][k]))
        if d["ident"]["uniq"]:
            out.append("identifier.uniq = %s" % q(d["ident"]["uniq"]))
        for n in ex.get("identifier", []):
            out.append("identifier.%s = 1" % bare(n))
    else:
        out.append("[identifier]")
        for k in ("bus", "vendor", "product", "version"):
            out.append("  %s = 0x%04x" % (k, d["ident"][k]))
        if d["ident"]["uniq"]:
            out.append("  uniq = %s" % q(d["ident"]["uniq"]))
        extras("identifier")
    out.append("")
    out.append("[defaults]")
    df = d["defaults"]
    out.append("  octave = %d" % df["octave"])
    out.append("  semitone = %d" % df["semitone"])
    out.append("  channel = %d" % df["channel"])
    out.append("  mapping = %s" % q(df["mapping"]))
    out.append("  velocity = %d" % df["velocity"])
    extras("defaults")
    out.append("")
    out.append("[action_mapping]")
    for a in d["actions"]:
        out.append("  %s = %s" % (bare(a["name"]), q(a["a"])))
    if d["hascolors"]:
        out.append("")
        out.append("[open_rgb]")
        for k, v in d["colors"].items():
            out.append("  %s = 0x%06x" % (k, v))
        extras("open_rgb")
    for m in d["maps"]:
        out.append("")
        out.append("[[mapping]]")
        out.append("  name = %s" % q(m["name"]))
        if m is d["maps"][0]:
            extras("mapping")
        for s in m["keys"]:
            out.append("  [[mapping.keys]]")
            out.append("    subhandler = %s" % q(s["sub"]))
            if s is m["keys"][0] and m is [x for x in d["maps"] if x["keys"]][0]:
                extras("keys", "    ")
            out.append("    [mapping.keys.map]")
            for k in s["map"]:
                v = k["text"] + (",%d" % k["off"] if k["hasoff"] else "")
                out.append("      %s = %s" % (bare(k["name"]), q(v)))
        for s in m["analog"]:
            out.append("  [[mapping.analog]]")
            out.append("    subhandler = %s" % q(s["sub"]))
            if s["dd"] != "none":
                out.append("    default_deadzone = %s" % (s["dd"] if "." in s["dd"] else s["dd"] + ".0"))
            first_an = [x for x in d["maps"] if x["analog"]][0]["analog"][0]
            if s is first_an:
                extras("analog", "    ")
            def fields(a, first):
                f = [("type", q(a["type"]))]
                if a["hascc"]:
                    f.append(("cc", str(a["cc"])))
                if a["hasccn"]:
                    f.append(("cc_negative", str(a["ccn"])))
                if a["hasnote"]:
                    f.append(("note", str(a["note"])))
                if a["hasnoten"]:
                    f.append(("note_negative", str(a["noten"])))
                if a["hasoff"]:
                    f.append(("channel_offset", str(a["off"])))
                if a["hasoffn"]:
                    f.append(("channel_offset_negative", str(a["offn"])))
                if a["hasact"]:
                    f.append(("action", q(a["act"])))
                if a["hasactn"]:
                    f.append(("action_negative", q(a["actn"])))
                if a["hasflip"]:
                    f.append(("flip_axis", "true" if a["flip"] else "false"))
                if a["hascentre"]:
                    f.append(("deadzone_at_center", "true" if a["centre"] else "false"))
                if first:
                    for n in ex.get("analogmap", []):
                        f.append((bare(n), "1"))
                return f
            if spelling == "header":
                for i, a in enumerate(s["map"]):
                    out.append("    [mapping.analog.map.%s]" % bare(a["name"]))
                    for k, v in fields(a, s is first_an and i == 0):
                        out.append("      %s = %s" % (k, v))
            elif spelling == "dotted":
                out.append("    [mapping.analog.map]")
                for i, a in enumerate(s["map"]):
                    for k, v in fields(a, s is first_an and i == 0):
                        out.append("      %s.%s = %s" % (bare(a["name"]), k, v))
            else:
                out.append("    [mapping.analog.map]")
                for i, a in enumerate(s["map"]):
                    out.append("      %s = { %s }" % (bare(a["name"]), ", ".join("%s = %s" % kv for kv in fields(a, s is first_an and i == 0))))
            if s["dz"]:
                out.append("    [mapping.analog.deadzones]")
                for z in s["dz"]:
                    out.append("      %s = %s" % (bare(z["name"]), z["v"] if "." in z["v"] else z["v"] + ".0"))
    return "\n".join(out) + "\n"


def c10_cases(seed, tier):
    """Valid descriptions in three spellings and every single-field invalidation of them."""
    rng = random.Random(seed * 613 + 11)
    _cycle.clear()
    n_valid = 60 if tier == "quick" else 600
    cases = []
    for i in range(n_valid):
        d = valid_desc(rng, full=(i % 5 == 0))
        sp = ["inline", "header", "dotted"][i % 3]
        cases.append({"kind": "valid", "desc": d, "toml": render(d, sp), "spelling": sp})
        for kind in INVALIDATIONS:
            for _ in range(1 if tier == "quick" else 2):
                bad = invalidate(d, kind, rng)
                if bad is not None:
                    cases.append({"kind": kind, "desc": bad, "toml": render(bad, sp), "spelling": sp})
    for i, c in enumerate(cases):
        c["id"] = i + 1
    return cases


ILL = ['"str"', "1.5", "1979-05-27", "true", "[1, 2]", "{ a = 1 }", "-0", "0x10", "1_000", "+5", "9223372036854775808", "nan", '""',
       # valid TOML integers of absurd size (loops and shifts that depend on the value), and around the 8/16/32-bit edges
       "9223372036854775807", "-9223372036854775808", "0x7000000000000000", "4294967296", "-2147483649", "65536"]
AFIELDS = ["cc", "cc_negative", "note", "note_negative", "channel_offset", "channel_offset_negative", "action", "action_negative",
           "flip_axis", "deadzone_at_center", "type"]


def c09_structured(seed, tier):
    """Syntactically valid TOML with missing / extra / ill-typed fields: for each analog type every
    subset of the optional fields present, every field ill-typed in each way, top-level sections
    absent, several spellings.  Returned as raw TOML texts (only totality is judged)."""
    rng = random.Random(seed * 271 + 7)
    texts = []
    head = 'collision_mode = "off"\nexit_sequence = []\n[identifier]\n  bus = 0\n[defaults]\n  octave = 0\n  semitone = 0\n  channel = 1\n  mapping = "M"\n  velocity = 64\n[action_mapping]\n[[mapping]]\n  name = "M"\n  [[mapping.analog]]\n    subhandler = ""\n    [mapping.analog.map]\n'
    good = {"cc": "1", "cc_negative": "2", "note": "60", "note_negative": "61", "channel_offset": "1", "channel_offset_negative": "2",
            "action": '"panic"', "action_negative": '"octave_up"', "flip_axis": "true", "deadzone_at_center": "false"}
    opt = ["cc", "cc_negative", "note", "note_negative", "action", "action_negative"]
    for typ in TYPES + ["bogus"]:
        for mask in range(1 << len(opt)):
            f = ['type = "%s"' % typ] + ["%s = %s" % (k, good[k]) for i, k in enumerate(opt) if mask & (1 << i)]
            texts.append(head + "      ABS_X = { %s }\n" % ", ".join(f))
        for fld in AFIELDS:
            for ill in ILL:
                f = {k: good[k] for k in good}
                f["type"] = '"%s"' % typ
                f[fld] = ill
                texts.append(head + "      ABS_X = { %s }\n" % ", ".join("%s = %s" % kv for kv in f.items()))
    # top-level sections absent / ill-typed
    d = valid_desc(rng, full=True)
    base = render(d)
    lines = base.split("\n")
    sections = ["collision_mode", "exit_sequence", "[identifier]", "[defaults]", "[action_mapping]", "[[mapping]]", "  name =",
                "[[mapping.keys]]", "    [mapping.keys.map]", "[[mapping.analog]]", "    [mapping.analog.map]", "    subhandler"]
    for sec in sections:
        texts.append("\n".join(l for l in lines if not l.lstrip().startswith(sec.lstrip()) or not l.startswith(sec[:2])) + "\n")
        texts.append("\n".join(l for l in lines if sec.strip() not in l) + "\n")
    for top in ["collision_mode", "exit_sequence", "identifier", "defaults", "action_mapping", "mapping", "open_rgb"]:
        for ill in ILL + ["[[1]]", "[{a=1}]"]:
            texts.append("%s = %s\n" % (top, ill) + "\n".join(l for l in lines if not l.startswith(top) and not l.startswith("[" + top)))
    for fld in ["octave", "semitone", "channel", "mapping", "velocity"]:
        for ill in ILL:
            texts.append(base.replace("  %s = " % fld, "  %s = %s #" % (fld, ill), 1))
    for fld in ["bus", "vendor", "product", "version"]:
        for ill in ILL + ["65536", "-1"]:
            texts.append(base.replace("  %s = " % fld, "  %s = %s #" % (fld, ill), 1))
    # [open_rgb]: every colour ill-typed, negative, beyond 24 bits, at the ends of the integer range (the section is
    # converted last, after everything else has been accepted)
    dc = d if d["hascolors"] else None
    for _ in range(20):
        if dc is not None:
            break
        cand = valid_desc(rng, full=True)
        dc = cand if cand["hascolors"] else None
    if dc is not None:
        cbase = render(dc)
        for k in dc["colors"]:
            for ill in ILL + ["-1", "-5592406", "-9223372036854775808", "16777216", "4294967295", "9223372036854775807", "0x-1", "-0x1"]:
                texts.append(cbase.replace("  %s = 0x" % k, "  %s = %s #0x" % (k, ill), 1))
    # byte-order marks, line endings, NULs and blanks around and inside otherwise valid text
    tokens = ["\ufeff", "\n\ufeff", " \t\ufeff", "\ufeff\ufeff", "\r\n", "\r", "\x00", "\ufffe", " " * 300, "\n" * 300,
              "\t", "\u2028", "#", "# \ufeff\n"]
    mid = base.index("\n", len(base) // 2) + 1
    for tok in tokens:
        texts += [tok + base, base + tok, tok + "\n" + base, "\n" + tok + base, base[:mid] + tok + base[mid:], tok, tok * 3 + base]
    texts.append(base.replace("\n", "\r\n"))
    # mappings whose names repeat or look like numbered copies of each other (a valid file: names are only labels)
    import itertools
    fam = ["Piano", "Piano (1)", "Piano (2)", "Piano (3)", "Piano (4)", "Piano_2", "piano", " Piano", ""]
    def named(names):
        out = ['collision_mode = "off"', "exit_sequence = []", "[identifier]", "  bus = 0", "[defaults]", "  octave = 0", "  semitone = 0",
               "  channel = 1", "  mapping = %s" % q(names[0]), "  velocity = 64", "[action_mapping]"]
        for i, nm in enumerate(names):
            out += ["[[mapping]]", "  name = %s" % q(nm), "  [[mapping.keys]]", '    subhandler = ""', "    [mapping.keys.map]",
                    '      KEY_A = "%d"' % (60 + i)]
        return "\n".join(out) + "\n"
    for k in (2, 3, 4):
        for names in itertools.islice(itertools.product(fam[:5], repeat=k), 0, None, 1 if k < 4 else 7):
            if len(set(names)) < k or any("(" in n for n in names):
                texts.append(named(list(names)))
    texts.append(named(["Piano"] * 12))
    texts.append(named(fam))
    texts += ["", "\n", "[[mapping.keys]]\n", "[[mapping.keys]]\nsubhandler = \"\"\n[mapping.keys.map]\nKEY_A = \"1\"\n",
              "[[mapping.analog]]\n[mapping.analog.map]\nABS_X = { type = \"cc\" }\n", "mappin = \"Default\"\n", "velcity = 64\n",
              "[defaults]\nvelcity = 64\n", "[[mapping]]\nnam = 1\n", "[[mapping]]\n[[mapping.keys]]\nsubhandlr = 1\n",
              "[mapping]\nname = \"x\"\n", "mapping = [1,2]\n", "[[mapping]]\nkeys = 5\n", "[[mapping]]\n[mapping.keys]\nsubhandler=\"\"\n",
              "a.b.c = 1\n", "[a]\n[a.b]\n[[a.b.c]]\n", "x = [[[[[[[[[[[[[[[[1]]]]]]]]]]]]]]]]\n", "x = {a={b={c={d={e=1}}}}}\n"]
    return texts


def hidi_toml_cases(seed, tier):
    """hidi.toml: each rate absent / 0 / negative / ill-typed / huge."""
    vals = ["absent", "0", "-1", "1", "100", "1000000000", "9223372036854775807", '"fast"', "1.5", "true", "[1]", "1979-05-27"]
    fields = ["pool_rate", "discovery_rate", "stabilization_period", "log_view_rate", "log_buffer_size"]
    texts = []
    for f in fields[:3]:
        for v in vals:
            cur = {"pool_rate": "100", "discovery_rate": "2", "stabilization_period": "500", "log_view_rate": "30", "log_buffer_size": "100"}
            cur[f] = v
            texts.append("[HIDI]\n" + "".join("%s = %s\n" % (k, x) for k, x in cur.items() if x != "absent"))
    texts += ["", "[HIDI]\n", "HIDI = 1\n", "[hidi]\npool_rate = 1\n", "[HIDI]\npool_rate = 0\ndiscovery_rate = 0\n",
              "[[HIDI]]\npool_rate = 1\n", "HIDI.pool_rate = 5\nHIDI.discovery_rate = 1\n", "\x00\x01", "[HIDI\n", "[HIDI]\npool_rate = \n"]
    return texts


# ---------------------------------------------------------------------------------------------
# end to end: a description as the device engine's abstract configuration

EV_NAMES = {v: k for k, v in KEYS.items()}
ABS_NAMES = {v: k for k, v in ABS.items()}


def desc_to_cfg(d, sub=""):
    """The abstract device configuration (spec/Device.tla cfg record) a description means, restricted to the
    sub-handler `sub`.  Returns None when the description uses something the engine model does not read
    (required fields missing)."""
    maps = []
    for m in d["maps"]:
        keys, axes = {}, {}
        for s in m["keys"]:
            if s["sub"] != sub:
                continue
            for k in s["map"]:
                keys[EV_NAMES[k["code"]]] = {"n": k["val"], "o": k["off"] if k["hasoff"] else 0}
        for s in m["analog"]:
            if s["sub"] != sub:
                continue
            dz = {z["code"]: z["v"] for z in s["dz"]}
            for a in s["map"]:
                if (a["type"] == "cc" and not a["hascc"]) or (a["type"] == "key" and not a["hasnote"]) or (a["type"] == "action" and not a["hasact"]):
                    return None
                from fractions import Fraction
                v = dz.get(a["code"], s["dd"] if s["dd"] != "none" else "0")
                fr = Fraction(v)
                bidi = {"cc": a["hasccn"], "key": a["hasnoten"], "action": a["hasactn"], "pitch_bend": False}[a["type"]]
                axes[ABS_NAMES[a["code"]]] = {
                    "type": a["type"], "cc": a["cc"], "ccNeg": a["ccn"] if a["hasccn"] else 0, "note": a["note"],
                    "noteNeg": a["noten"] if a["hasnoten"] else 0,
                    "off": a["off"] if a["hasoff"] and a["type"] != "action" else 0,
                    "offNeg": a["offn"] if a["hasoffn"] and a["type"] in ("cc", "key") else 0,
                    "act": a["act"], "actNeg": a["actn"] if a["hasactn"] else "", "bidi": bidi,
                    "flip": a["flip"] if a["hasflip"] else False, "centre": a["centre"] if a["hascentre"] else False,
                    "dzn": fr.numerator, "dzd": fr.denominator, "dzsrc": "specific" if a["code"] in dz else "handler"}
        maps.append({"name": m["name"], "keys": keys, "axes": axes})
    names = [m["name"] for m in d["maps"]]
    return {"mode": d["mode"], "exit": [EV_NAMES[k["code"]] for k in d["exit"]], "vel": d["defaults"]["velocity"] or 64,
            "dOct": d["defaults"]["octave"], "dSemi": d["defaults"]["semitone"], "dChan": d["defaults"]["channel"] - 1,
            "dMap": len(names) - names[::-1].index(d["defaults"]["mapping"]),
            "actions": {EV_NAMES[a["code"]]: a["a"] for a in d["actions"]}, "maps": maps, "axinfo": {}}


def end_to_end_batches(seed, tier):
    """Valid descriptions rendered as TOML, parsed by the real ParseData, the device built from the result and driven by a
    script over the default mapping: every key pressed and released (overlapping), every axis over its range; the engine
    model runs on the configuration the description means."""
    import devdrivers
    rng = random.Random(seed * 1009 + 17)
    n = 25 if tier == "quick" else 250
    batches = []
    tries = 0
    while len(batches) < n and tries < n * 20:
        tries += 1
        d = valid_desc(rng, full=(tries % 3 == 0))
        if d["defaults"]["channel"] not in range(1, 17):
            continue
        for m in d["maps"]:      # one sub-handler: the events of a life come from one handler
            for s in m["keys"]:
                s["sub"] = ""
            m["keys"] = m["keys"][:1]
            for s in m["analog"]:
                s["sub"] = ""
            m["analog"] = m["analog"][:1]
            for s in m["analog"]:
                for a in s["map"]:
                    a["centre"] = False          # deadzone_at_center only on axes with min 0 (chosen below)
                    a["hascentre"] = False
                    if a["type"] == "action":    # keep state changes out of the script's way (cc-learning would gate the
                        a["act"], a["actn"] = "mapping", "multinote"   # key-emulating axes: observation O1, outside C08)
        # controller numbers are distinct across the axes of a mapping (C06 / C07 speak of an axis' own controllers; two
        # axes driving one controller number on one channel are outside their quantifiers)
        for m in d["maps"]:
            pool = list(range(0, 120))
            rng.shuffle(pool)
            for s in m["analog"]:
                for a in s["map"]:
                    if a["type"] == "cc":
                        a["cc"] = pool.pop()
                        if a["hasccn"]:
                            a["ccn"] = pool.pop()
        d["exit"] = []
        # keys that are both an action and a note are actions for the engine: drop the note role
        acts = {a["code"] for a in d["actions"]}
        for m in d["maps"]:
            for s in m["keys"]:
                s["map"] = [k for k in s["map"] if k["code"] not in acts]
        d["actions"] = [a for a in d["actions"] if a["a"] in ("panic", "multinote", "channel", "mapping", "exit")]
        cfg = desc_to_cfg(d)
        if cfg is None:
            continue
        sp = ["inline", "header", "dotted"][len(batches) % 3]
        mp = cfg["maps"][cfg["dMap"] - 1]
        info = {}
        for a in mp["axes"]:
            info[a] = rng.choice([{"min": -128, "max": 127}, {"min": 0, "max": 255}, {"min": -1, "max": 1}])
        for m in cfg["maps"]:
            for a in m["axes"]:
                info.setdefault(a, {"min": -128, "max": 127})
        cfg["axinfo"] = info
        w = []
        ks = sorted(mp["keys"])
        for k in ks:
            w.append({"ev": "press", "k": k})
        for k in ks:
            w.append({"ev": "release", "k": k})
        for a in sorted(mp["axes"]):
            mn, mx = info[a]["min"], info[a]["max"]
            pts = [mn, mx, (mn + mx) // 2, mx, 0 if mn < 0 else mx // 2, mn, (mn + mx) // 2 + 1] + [rng.randint(mn, mx) for _ in range(12)]
            pts.append(0 if mn < 0 else (mn + mx) // 2 + 1)
            for p in pts:
                if not any(a in m["axes"] and devdrivers.on_float_boundary(info[a], m["axes"][a], p) for m in cfg["maps"]):
                    w.append({"ev": "axis", "a": a, "raw": p})
        for k in sorted(cfg["actions"]):
            w += [{"ev": "press", "k": k}, {"ev": "release", "k": k}]
        for k in ks[:3]:
            w += [{"ev": "press", "k": k}]
        w.append({"ev": "disconnect"})
        batches.append({"cfg": cfg, "cfgmode": "toml", "toml": render(d, sp), "sub": "", "optional": True, "walks": [w]})
    return batches
