"""Registry of the checks, one function per property id."""
import json
import os
import time
from concurrent.futures import ThreadPoolExecutor

import devcheck
import devdrivers
import vlib
from vlib import Infra, log

MODES = ["off", "no_repeat", "interrupt", "retrigger"]


# ---------------------------------------------------------------------------------------------
# device engine: C01 C02 C03 C04 C13 C14 (keys), C05-C08 (axes)

def events_to_inputs(events):
    ins = []
    for e in events:
        if e.get("ev") in ("press", "release"):
            ins.append({"ev": e["ev"], "k": e["k"]})
        elif e.get("ev") == "axis":
            ins.append({"ev": "axis", "a": e["a"], "raw": e.get("raw", 0)})
        elif e.get("ev") == "ignored":
            ins.append({"ev": "ignored", "kind": e.get("kind", "syn"), "k": e.get("k", "")})
        elif e.get("ev") in ("disconnect",):
            ins.append({"ev": "disconnect"})
        elif e.get("ev") in ("crash", "hang"):
            # the input that crashed the engine is recorded in the line itself
            if e.get("k"):
                ins.append({"ev": "press", "k": e["k"]})
            elif e.get("a"):
                ins.append({"ev": "axis", "a": e["a"], "raw": e.get("raw", 0)})
    return ins


def device_job(scr, out, job, workers, tier):
    """One bounded configuration: exhaustive TLC run, tours over every transition on the real code."""
    name = job["name"]
    t0 = time.time()
    res = devcheck.model_check(scr, job["module"], job["consts"], workers)
    out.add_mc(name, res)
    d = devcheck.dump_and_tour(scr, job["module"], job["consts"], workers, cap=job.get("cap", 2000))
    out.add_tour(name, d)
    njobs = job.get("split", 2)
    groups = devcheck.split_walks(d["walks"], njobs)
    batches = [[{"cfg": d["cfg"], "cfgmode": "literal", "sub": "", "walks": g}] for g in groups]
    if job.get("cfgmode") == "toml":
        for b in batches:
            with_toml(b)
    for tf, r in devcheck.replay_and_validate(scr, batches, njobs):
        out.add_validation(tf, r)
        os.remove(tf)
    log("job %s done in %.1fs (%d states, %d graph transitions)" % (name, time.time() - t0, res.distinct, d["stats"]["edges"]))


def device_check(pid, tier, replay, prefixes, jobs, drivers=(), rule="", assumptions=()):
    scr = vlib.Scratch(pid)
    out = devcheck.Outcome(pid, tier, prefixes)
    scr.build()
    if replay:
        with open(replay) as f:
            rp = json.load(f)
        batch = [{"cfg": rp["cfg"], "cfgmode": rp.get("cfgmode", "literal"), "toml": rp.get("toml", ""), "sub": rp.get("sub", ""),
                  "walks": [events_to_inputs(rp["events"])]}]
        for tf, r in devcheck.replay_and_validate(scr, [batch], 1):
            out.add_validation(tf, r)
        return out.finish(rule="replay of one recorded life")
    scr.build_tool("tourgen")
    par = max(1, min(len(jobs), 8 if tier == "quick" else 4)) if jobs else 1
    workers = max(2, vlib.NCPU // par)
    with ThreadPoolExecutor(max_workers=par) as ex:
        list(ex.map(lambda j: device_job(scr, out, j, workers, tier), jobs))
    # seeded random drivers under wider bounds than TLC exhausts
    batches = []
    for drv in drivers:
        batches.extend(drv(vlib.seed(), tier))
    if batches:
        # split by walks so that the validators (one core each) get similar shares
        flat = []
        for b in batches:
            ws = b["walks"]
            step = max(1, (len(ws) + 7) // 8)
            for i in range(0, len(ws), step):
                nb = dict(b)
                nb["walks"] = ws[i:i + step]
                flat.append(nb)
        flat.sort(key=lambda b: -sum(len(w) for w in b["walks"]))
        ng = 10
        groups = [[] for _ in range(ng)]
        sizes = [0] * ng
        for b in flat:
            i = sizes.index(min(sizes))
            groups[i].append(b)
            sizes[i] += sum(len(w) + 1 for w in b["walks"])
        groups = [g for g in groups if g]
        for tf, r in devcheck.replay_and_validate(scr, groups, len(groups)):
            out.add_validation(tf, r)
            os.remove(tf)
    return out.finish(rule=rule, assumptions=assumptions)


DEFAULT_CONSTS = {"Variant": "keys", "Mode": "interrupt", "OctB": 1, "SemiB": 0, "ChanB": 1, "TapActions": True,
                  "ExitLen": 0, "NBase": 4, "AxSet": set(),
                  "HoldSet": {"KEY_ESC"} | {"KEY_F%d" % i for i in range(1, 13)}}


def J(name, **kw):
    c = dict(DEFAULT_CONSTS)
    extra = {k: kw.pop(k) for k in list(kw) if k in ("cap", "split", "cfgmode")}
    c.update(kw)
    j = {"name": "%s %s" % (name, " ".join("%s=%s" % (k, v) for k, v in kw.items())), "module": "MC_device", "consts": c}
    j.update(extra)
    return j


HOLD_SETS = [("KEY_F1", "KEY_F2"), ("KEY_F11", "KEY_F12"), ("KEY_ESC", "KEY_F9"), ("KEY_ESC", "KEY_F10"), ("KEY_F5", "KEY_F6")]


def keys_jobs(tier, modes=MODES):
    """Bounded key-engine configurations.  quick: two small cuts per mode (octave dimension, channel
    dimension); thorough: the product, with semitone actions, and action keys held (pairs)."""
    jobs = []
    for m in modes:
        if tier == "quick":
            jobs.append(J("keys", Variant="keys", Mode=m, OctB=1, ChanB=0))
            jobs.append(J("keys", Variant="keys", Mode=m, OctB=0, ChanB=1))
        else:
            jobs.append(J("keys", Variant="keys", Mode=m, OctB=1, ChanB=1, split=4))
            jobs.append(J("keys", Variant="keys", Mode=m, OctB=1, SemiB=1, ChanB=0, split=4))
            # action keys held: two at a time may be held, the others are tapped (all of them held at once is
            # beyond 4 M states); the pairs are the up/down pairs and panic with each latch
            for hs in (HOLD_SETS if m == "interrupt" else HOLD_SETS[:2]):
                jobs.append(J("keys-held-actions", Variant="keys", Mode=m, OctB=1, ChanB=0, TapActions=False, HoldSet=set(hs), split=2))
    return jobs


ASSUME_DEV = [
    "the harness steps the real device.Device through its input channel one event at a time (EV_SYN sentinel) and "
    "attributes the bytes found on the output channel to that step",
    "TLC 1.8 evaluates the predicates of spec/DeviceSys.tla correctly",
    "configurations are built as config.Config literals from the abstract configuration (engine alone)",
]


def c01(pid, tier, replay):
    # key-emulating axes are keys too: their quiescence and their disconnect clean-up belong to C01
    return device_check(pid, tier, replay, ["C01_"], keys_jobs(tier) + axis_jobs("akey", [["ABS_HAT0X"], ["ABS_RX"], ["ABS_GAS"]], tier) + akeymap_jobs(tier),
                        drivers=[devdrivers.random_keys, devdrivers.random_cfg_keys, devdrivers.edge_pitch_collisions, devdrivers.c08_batches,
                                 devdrivers.akey_mapping_batches, devdrivers.two_handler_key_batches, devdrivers.tight_key_batches,
                                 devdrivers.random_exit],
                        assumptions=ASSUME_DEV)


def c02(pid, tier, replay):
    # an axis emulating a key is a key: its Note Off is pinned to its Note On the same way (C08_Pinned, C08_Off)
    return device_check(pid, tier, replay, ["C02_", "C08_Pinned", "C08_Off"], keys_jobs(tier) + akeymap_jobs(tier),
                        drivers=[devdrivers.random_keys, devdrivers.random_cfg_keys, devdrivers.edge_pitch_collisions, devdrivers.akey_mapping_batches,
                                 devdrivers.c08_batches], assumptions=ASSUME_DEV)


def c03(pid, tier, replay):
    jobs = []
    for m in MODES:
        if tier == "quick":
            jobs.append(J("collide", Variant="collide", Mode=m, OctB=1, ChanB=0))
            jobs.append(J("collide", Variant="collide", Mode=m, OctB=0, ChanB=1))
        else:
            jobs.append(J("collide", Variant="collide", Mode=m, OctB=1, ChanB=1, split=4))
    return device_check(pid, tier, replay, ["C03_"], jobs, drivers=[devdrivers.random_keys, devdrivers.random_cfg_keys, devdrivers.edge_pitch_collisions,
                                 devdrivers.tight_key_batches, devdrivers.logging_key_batches],
                        assumptions=ASSUME_DEV)


def c04(pid, tier, replay):
    if tier == "quick":
        jobs = [J("arith", Variant="arith", OctB=12, SemiB=13, ChanB=0, NBase=4),
                J("arith-chan", Variant="arith", OctB=0, SemiB=0, ChanB=15, NBase=1),
                J("pairs", Variant="pairs", OctB=2, SemiB=2, ChanB=3, TapActions=False)]
    else:
        jobs = [J("arith", Variant="arith", OctB=12, SemiB=13, ChanB=0, NBase=10, split=4),
                J("arith-chan", Variant="arith", OctB=1, SemiB=1, ChanB=15, NBase=2, split=4),
                J("pairs", Variant="pairs", OctB=2, SemiB=2, ChanB=3, TapActions=False, split=4)]
    return device_check(pid, tier, replay, ["C04_"], jobs, drivers=[devdrivers.random_keys, devdrivers.random_cfg_keys, devdrivers.action_axis_batches],
                        assumptions=ASSUME_DEV)


def c13(pid, tier, replay):
    # panic through an axis that emulates actions: held cc-learning key, tapped mapping key
    aact = [J("aact", Variant="aact", AxSet={"ABS_Z"}, OctB=1, ChanB=0, TapActions=False, HoldSet={"KEY_F9"}),
            J("aact", Variant="aact", AxSet={"ABS_HAT0X"}, OctB=1, ChanB=0, TapActions=False, HoldSet={"KEY_F9"})]
    return device_check(pid, tier, replay, ["C13_"], keys_jobs(tier) + aact,
                        drivers=[devdrivers.random_keys, devdrivers.random_cfg_keys, devdrivers.panic_axis_batches, devdrivers.action_axis_batches,
                                 devdrivers.tight_key_batches],
                        assumptions=ASSUME_DEV)


def c14(pid, tier, replay):
    jobs = [J("exit", Variant="exit", Mode=m, OctB=1, ChanB=0, ExitLen=n, TapActions=False)
            for n in (0, 1, 2, 3) for m in (MODES if tier == "thorough" else ["interrupt"])]
    return device_check(pid, tier, replay, ["C14_"], jobs, drivers=[devdrivers.random_exit, devdrivers.tight_exit_batches], assumptions=ASSUME_DEV)


def with_toml(batches):
    """Route the configurations through config.ParseData (end to end, as C05 / C08 demand)."""
    import tomlgen
    for b in batches:
        b["cfgmode"] = "toml"
        b["toml"] = tomlgen.render(b["cfg"], sub=b.get("sub", ""))
        if b["cfg"]["vel"] == 0:        # the file's meaning: velocity 0 (or absent) is 64
            b["cfg"]["vel"] = 64
        for m in b["cfg"]["maps"]:      # what the file can express: one default dead-zone per handler
            for ad in m["axes"].values():
                if ad.get("dzsrc") == "global":
                    ad["dzsrc"] = "handler"
    return batches


def axis_jobs(variant, axsets, tier, **kw):
    return [J(variant, Variant=variant, AxSet=set(a), OctB=1, ChanB=1, **kw) for a in axsets]


def akeymap_jobs(tier):
    return [J("akeymap", Variant="akeymap", AxSet={"ABS_HAT0X"}, OctB=1, ChanB=0),
            J("akeymap", Variant="akeymap", AxSet={"ABS_Z"}, OctB=1, ChanB=0)]


def c05(pid, tier, replay):
    def boundary(seed, t):
        return with_toml(devdrivers.c05_batches(seed, t))
    def axes_through_parser(seed, t):
        return with_toml(devdrivers.c06_batches(seed, "quick")[::3] + devdrivers.c07_batches(seed, "quick")[::2]
                         + devdrivers.c08_batches(seed, "quick"))
    jobs = [J("keys", Variant="keys", Mode="interrupt", OctB=1, ChanB=0)] if tier == "quick" else keys_jobs("quick")
    return device_check(pid, tier, replay, ["C05_"], jobs,
                        drivers=[boundary, axes_through_parser, devdrivers.random_keys, devdrivers.action_axis_batches,
                                 cfggen.end_to_end_batches],
                        assumptions=ASSUME_DEV[:2] + [
                            "configurations are rendered as TOML and parsed by the real config.ParseData"])


def c06(pid, tier, replay):
    jobs = axis_jobs("axis", [["ABS_X"], ["ABS_Y"], ["ABS_Z", "ABS_RZ"]], tier)
    return device_check(pid, tier, replay, ["C06_"], jobs, drivers=[devdrivers.c06_batches], assumptions=ASSUME_DEV)


def c07(pid, tier, replay):
    jobs = [J("bidi", Variant="bidi", AxSet={"ABS_X", "ABS_Y"}, TapActions=False),
            J("bidi", Variant="bidi", AxSet={"ABS_Z"}, TapActions=False)]
    return device_check(pid, tier, replay, ["C07_"], jobs, drivers=[devdrivers.c07_batches], assumptions=ASSUME_DEV)


def c08(pid, tier, replay):
    sets = [["ABS_HAT0X"], ["ABS_Z"], ["ABS_RX"], ["ABS_GAS"], ["ABS_HAT0X", "ABS_RX"]]
    jobs = axis_jobs("akey", sets, tier, cfgmode="toml") + akeymap_jobs(tier)
    def drv(seed, t):
        return with_toml(devdrivers.c08_batches(seed, t) + devdrivers.akey_mapping_batches(seed, t) + devdrivers.two_handler_key_batches(seed, t)
                         + devdrivers.unnamed_axis_batches(seed, t))
    return device_check(pid, tier, replay, ["C08_", "C01_"], jobs, drivers=[drv], assumptions=ASSUME_DEV[:2] + [
        "configurations are rendered as TOML and parsed by the real config.ParseData (the anchor includes parser.go:261-290)"])


REGISTRY = {"C01": c01, "C02": c02, "C03": c03, "C04": c04, "C05": c05, "C06": c06, "C07": c07, "C08": c08,
            "C13": c13, "C14": c14}


# ---------------------------------------------------------------------------------------------
# function-shaped properties

import subprocess

import casecheck


def run_cmd(cmd, timeout=1800, cwd=None):
    r = subprocess.run(cmd, stdout=subprocess.PIPE, stderr=subprocess.PIPE, text=True, timeout=timeout, cwd=cwd)
    if r.returncode != 0:
        raise Infra("%s failed: %s" % (cmd[0:2], r.stderr[-3000:]))
    return r


def c11(pid, tier, replay):
    scr = vlib.Scratch(pid)
    out = casecheck.CaseOutcome(pid, tier, ["C11_"])
    h = scr.build()
    must, res0 = casecheck.tlc_print(scr, "NoteNamesTrace", "MUSTLOG")
    mpath = scr.fresh("mustlog") + ".json"
    maxlen, samples = (3, 20000) if tier == "quick" else (4, 200000)
    if replay:
        with open(replay) as f:
            rp = json.load(f)
        must, maxlen, samples = sorted(set(must) | {rp["case"].get("s", "")}), 1, 0
    with open(mpath, "w") as f:
        json.dump(sorted(must), f)
    t = scr.fresh("notes") + ".ndjson"
    run_cmd([h, "notes", str(maxlen), "8", str(vlib.seed()), str(samples), mpath, t])
    r = vlib.validate_trace(scr, "NoteNamesTrace", t)
    out.add(t, r, sample_filter=lambda d: d.get("ev") == "s2n")
    with open(t) as f:
        tried = [json.loads(x) for x in f if '"summary"' in x][0]["tried"]
    out.extra["evaluations"] = tried
    out.extra["strings_tried"] = tried
    out.notes.append("all %d strings of length <= %d over letters, digits, '#', '-', space were passed to the real StringToNote; "
                     "accepted ones, the 256 valid spellings, the open '-0' spellings and %d seeded longer strings / edits "
                     "were logged and judged by TLC" % (tried - samples, maxlen, samples))
    return out.finish(rule="every string of the exhaustive space is executed on the real code; logged cases (accepted, valid, sampled) "
                           "are judged by NoteNames!Judge; distinct_nontrivial = logged cases",
                      assumptions=["a string StringToNote rejects and that is not one of the 256 valid spellings needs no judgement "
                                   "(rejection is the specified result), so only its count is recorded"],
                      exhaustive=True)


REGISTRY["C11"] = c11


def c20(pid, tier, replay):
    scr = vlib.Scratch(pid)
    out = casecheck.CaseOutcome(pid, tier, ["C20_"])
    h = scr.build()
    tab, _ = casecheck.tlc_print(scr, "DiscoveryTrace", "CAPTABLE")
    tpath = scr.fresh("captable") + ".json"
    with open(tpath, "w") as f:
        json.dump(tab, f)
    maxlen, nrand = (3, 2000) if tier == "quick" else (4, 20000)
    t = scr.fresh("disc") + ".ndjson"
    run_cmd([h, "discovery", tpath, str(maxlen), str(nrand), "12", str(vlib.seed()), t])
    # first contact with the capability sets in other orders, each in a fresh process (a classification that
    # remembers what it met first is stable within one process): their lines are judged together by Final
    cold = scr.fresh("disc-cold") + ".ndjson"
    with open(cold, "w") as o:
        for k in range(1, 7):
            part = scr.fresh("disc-cold-part") + ".ndjson"
            r = subprocess.run([h, "discovery", tpath, "1", "40", "6", str(vlib.seed() * 10 + k), part], stdout=subprocess.PIPE,
                               stderr=subprocess.PIPE, text=True, timeout=600, env=dict(os.environ, VERIFH_PERM=str(vlib.seed() * 100 + k)))
            if r.returncode != 0:
                raise Infra("verifh discovery (cold run) failed: " + r.stderr[-2000:])
            with open(part) as f:
                o.write(f.read())
            os.remove(part)
    # validate in chunks on several cores
    chunks = split_ndjson(scr, t, 8 if tier == "quick" else 14) + [cold]
    for tf, r in zip(chunks, vlib.validate_traces_parallel(scr, "DiscoveryTrace", chunks, xmx="3g")):
        out.add(tf, r, sample_filter=lambda d: len(d.get("hs", [])) >= 3)
    if not replay:
        handler_monitor(scr, out, tier)
    ncl, nloc = len(tab["caps"]), len(tab["locs"])
    out.notes.append("exhaustive: every sequence of 0..%d handlers over %d capability classes x %d locations "
                     "(every multiset in every discovery order); seeded: %d multisets of up to 12 handlers in 3 orders each, "
                     "capability order shuffled" % (maxlen, ncl, nloc, nrand))
    return out.finish(rule="one case = one call of the real input.Normalize on a synthetic handler list; all cases are judged by "
                           "Discovery!Judge; distinct_nontrivial = cases with at least two handlers",
                      distinct=sum(v for k, v in out.classes.items() if k in ("grouped", "singletons", "drift-handler-class")),
                      exhaustive=True,
                      assumptions=["handlers cannot be opened in the sandbox (no /dev/input), which is the case the property names: "
                                   "handlers that cannot be opened are still grouped",
                                   "the class of a capability set is taken as the code reports it (HandlerType); the statement does "
                                   "not define which sets are joystick-like"])


def handler_monitor(scr, out, tier):
    """Beyond the listed properties: the discovery front end input.monitorNewHandlers (HandlerMonitor.tla) - design
    checked by TLC, the real function run over a private /dev/input and judged by HandlerMonitorHist.  What it
    finds is reported as OBSERVATION lines and in the evidence notes, never as a violation of C20."""
    import random
    base = ('SPECIFICATION Spec\nCONSTANTS\n  Names = {"e1", "e2"}\n  MaxChanges = %d\n  ConsumerStopsAtCancel = %s\n'
            'INVARIANTS InMemoryMeansHandedOver\nPROPERTIES OnlyNew OnlyPresentAtScan EventuallyReported StreamEnds\nCHECK_DEADLOCK FALSE\n')
    n = 3 if tier == "quick" else 5
    res = vlib.run_tlc(scr, "HandlerMonitor", base % (n, "FALSE"), workers=4, timeout=900)
    if not res.completed:
        raise Infra("HandlerMonitor.tla (consumer keeps reading) does not satisfy its properties:\n" + res.tail(40))
    out.states += res.distinct
    out.transitions += res.generated
    res2 = vlib.run_tlc(scr, "HandlerMonitor", base % (n, "TRUE"), workers=4, timeout=900)
    leak_in_design = (not res2.completed) and "StreamEnds" in res2.tail(80)
    rng = random.Random(vlib.seed() * 73 + 11)
    names = ["event0", "event1", "event7", "event12", "event255"]
    junk = ["mouse0", "mice", "js0", "eventual", "event"]          # "event" + nothing, "eventual": HasPrefix("event") says yes
    scs = []
    def add(initial, ops, reading):
        scs.append({"id": len(scs) + 1, "initial": initial, "ops": ops, "reading": reading})
    A = lambda x: {"op": "add", "n": x}
    R = lambda x: {"op": "rm", "n": x}
    S = {"op": "settle"}
    add([], [A("event0"), S, A("event1"), S, R("event0"), S, A("event0"), S], True)
    add(["event0", "event1", "mouse0", "js0"], [S, R("event1"), A("event1"), S, {"op": "mkdir", "n": "by-id"}, {"op": "mkdir", "n": "event9"}, S], True)
    add(["event0"], [S, A("event1"), {"op": "cancel"}], False)
    add([], [S, {"op": "cancel"}], True)
    for _ in range(10 if tier == "quick" else 120):
        present = set(rng.sample(names + junk, rng.randrange(0, 4)))
        initial = sorted(present)
        ops = []
        for _ in range(rng.randrange(2, 14)):
            r = rng.random()
            if r < 0.4:
                x = rng.choice(names + junk)
                ops.append(A(x))
            elif r < 0.65:
                ops.append(R(rng.choice(names + junk)))
            elif r < 0.95:
                ops.append(S)
            else:
                ops.append({"op": "cancel"})
        add(initial, ops, rng.random() < 0.6)
    sp = scr.fresh("hm") + ".json"
    with open(sp, "w") as f:
        json.dump(scs, f)
    t = scr.fresh("handlers") + ".ndjson"
    h = scr.build()
    cmd = ["unshare", "-m", "--", "sh", "-c", 'mount -t tmpfs none /dev && mkdir /dev/input && exec "$@"', "sh", h, "handlers", sp, t]
    r = subprocess.run(cmd, stdout=subprocess.PIPE, stderr=subprocess.PIPE, text=True, timeout=1800)
    if r.returncode != 0:
        out.notes.append("beyond the listed properties: the handler monitor could not be run in a mount namespace (%s)" % r.stderr[-200:])
        return
    v = vlib.validate_trace(scr, "HandlerMonitorHistTrace", t, xmx="2g")
    with open(t) as f:
        lines = f.read().splitlines()
    obs = {}
    for name, ln in v["viol"]:
        obs.setdefault(name, []).append(json.loads(lines[ln - 1])["id"] if ln >= 1 else 0)
    for name, ids in sorted(obs.items()):
        print("OBSERVATION (outside the listed properties, not a verdict on %s): %s in handler-monitor scenarios %s" % (out.pid, name, ids[:8]))
    out.extra["beyond_properties"] = {
        "module": "HandlerMonitor.tla / HandlerMonitorHist.tla (input.monitorNewHandlers)",
        "design_states": res.distinct, "scenarios_on_real_code": len(lines),
        "design_leak_when_consumer_stops_at_cancel": leak_in_design,
        "observations": {k: len(x) for k, x in obs.items()}, "classes": v["branches"]}
    out.notes.append("beyond the listed properties: input.monitorNewHandlers modelled (HandlerMonitor.tla, %d states; with the "
                     "consumer that stops at cancellation - MonitorNewDevices - the design leaves the monitor blocked in its send: %s) "
                     "and run %d times over a private /dev/input; observations: %s"
                     % (res.distinct, leak_in_design, len(lines), {k: len(x) for k, x in obs.items()} or "none"))


def split_ndjson(scr, path, n):
    with open(path) as f:
        lines = f.readlines()
    n = max(1, min(n, len(lines) // 500 + 1))
    size = (len(lines) + n - 1) // n
    outs = []
    for i in range(n):
        part = lines[i * size:(i + 1) * size]
        if not part:
            continue
        p = scr.fresh("chunk") + ".ndjson"
        with open(p, "w") as f:
            f.writelines(part)
        outs.append(p)
    return outs


REGISTRY["C20"] = c20


def c12(pid, tier, replay):
    scr = vlib.Scratch(pid)
    out = casecheck.CaseOutcome(pid, tier, ["C12_"])
    h = scr.build()
    t = scr.fresh("loader") + ".ndjson"
    mode, n = ("sample", 1500) if tier == "quick" else ("full", 0)
    run_cmd([h, "loader", mode, str(n), str(vlib.seed()), scr.path("loader-trees"), t], timeout=3000)
    chunks = split_ndjson(scr, t, 8 if tier == "quick" else 14)
    for tf, r in zip(chunks, vlib.validate_traces_parallel(scr, "LoaderTrace", chunks, xmx="3g")):
        out.add(tf, r, sample_filter=lambda d: d.get("junk") != "none")
    out.notes.append("quick: all 256 presence combinations of the eight candidate files x 4 device types, plus %d seeded cases with "
                     "junk (broken TOML, non-TOML, nested broken, foreign ids) and missing directories; thorough: the full product "
                     "256 x 4 types x 6 junk kinds x 7 missing-directory sets" % n)
    return out.finish(rule="one case = one hidi-config tree built on disk, the real LoadDeviceConfigs + FindConfig run in it, the chosen "
                           "file identified by a marker; judged by Loader!Judge",
                      exhaustive=(tier == "thorough"),
                      assumptions=["unreadable directories cannot be produced as root in this sandbox (permissions are bypassed); "
                                   "missing directories are"])


REGISTRY["C12"] = c12


import cfggen
import glob


def hidi_abort(stderr):
    """The Go runtime aborted the process (fatal error / unrecovered panic) with HIDI code on a stack."""
    return ("fatal error:" in stderr or "panic:" in stderr) and "gethiox/HIDI/internal/pkg" in stderr


def abort_line(cur, stderr):
    with open(cur) as f:
        d = json.load(f)
    first = [l for l in stderr.splitlines() if l.startswith(("fatal error:", "panic:", "runtime:"))][:2]
    d["msg"] = "the process was taken down: " + " / ".join(first)[:300]
    return d


def run_parse_cases(scr, h, cases, tag, sub="parse", extra=()):
    """`verifh parse` over the cases.  A run-time abort of the harness process with HIDI frames on the stack IS the
    behaviour C09 forbids (no recover() can stop it): the input being parsed is logged with outcome "fatal" and the
    remaining cases run in a fresh process (at most three such restarts)."""
    t = scr.fresh(tag) + ".ndjson"
    open(t, "w").close()
    rest = list(cases)
    for attempt in range(4):
        cpath = scr.fresh(tag + "-cases") + ".json"
        with open(cpath, "w") as f:
            json.dump(rest, f)
        part = scr.fresh(tag + "-part") + ".ndjson"
        cur = scr.fresh(tag + "-cur") + ".json"
        r = subprocess.run([h, sub, cpath] + list(extra) + [part], stdout=subprocess.PIPE, stderr=subprocess.PIPE, text=True, timeout=1800,
                           env=dict(os.environ, VERIFH_CUR=cur))
        os.remove(cpath)
        if r.returncode == 0:
            with open(t, "a") as o, open(part) as f:
                o.write(f.read())
            os.remove(part)
            return t
        if not (hidi_abort(r.stderr) and os.path.exists(cur)):
            raise Infra("verifh parse failed: " + r.stderr[-3000:])
        d = abort_line(cur, r.stderr)
        if attempt == 3:      # four inputs have taken the process down: the verdict is there, the rest would repeat it
            with open(t, "a") as o:
                o.write(json.dumps(d) + "\n")
            return t
        idx = next(i for i, c in enumerate(rest) if c["id"] == d["id"])
        # what the dead process had judged before is lost with its buffer: run those cases again, without the culprit
        with open(t, "a") as o:
            o.write(json.dumps(d) + "\n")
        rest = rest[:idx] + rest[idx + 1:]
    return t


def build_hidi(scr):
    return scr.build(pkg="./cmd/hidi", name="hidi-verif")


def c10(pid, tier, replay):
    scr = vlib.Scratch(pid)
    out = casecheck.CaseOutcome(pid, tier, ["C10_"])
    h = scr.build()
    if replay:
        with open(replay) as f:
            rp = json.load(f)
        d = rp["case"]["desc"]
        cases = [{"id": 1, "kind": rp["case"].get("kind", "replay"), "desc": d, "toml": cfggen.render(d, sp)} for sp in ("inline", "header", "dotted")]
    else:
        cases = cfggen.c10_cases(vlib.seed(), tier)
    t = run_parse_cases(scr, h, cases, "c10")
    # end to end: what the parser returned drives the real engine; the engine model runs on what the description means
    e2e_viol = []
    if not replay:
        eb = cfggen.end_to_end_batches(vlib.seed(), tier)
        et, _ = devcheck.run_harness(scr, eb, tag="e2e")
        er = vlib.validate_trace(scr, "DeviceTrace", et, xmx="3g")
        out.states += er["_tlc"]["distinct"] or 0
        out.transitions += er["_tlc"]["generated"] or 0
        out.extra["end_to_end_events"] = er["lines"]
        out.extra["end_to_end_lives"] = devcheck.count_walks(et)
        for name, ln in er["viol"]:
            cfgx, events = devcheck.trace_context(et, ln)
            e2e_viol.append(("C10_EndToEnd", {"ev": "e2e", "predicate": name, "cfg": cfgx, "events": events[-6:]}))
        out.viol.extend(e2e_viol[:10])
    chunks = split_ndjson(scr, t, 8 if tier == "quick" else 14)
    for tf, r in zip(chunks, vlib.validate_traces_parallel(scr, "ConfigFileTrace", chunks, xmx="3g")):
        out.add(tf, r, sample_filter=lambda d: d.get("kind") != "valid")
    acc = sum(v for k, v in out.classes.items() if k == "valid:config")
    out.extra["accepted_valid_descriptions"] = acc
    out.notes.append("descriptions: 1-3 mappings, 0-2 sub-handlers, keys by name and hex code, notes by number and name, all four "
                     "analog types with optional fields present or absent, three TOML spellings (inline tables, sub-table headers, "
                     "dotted keys); every single-field invalidation of each")
    return out.finish(rule="one case = one rendered configuration parsed by the real config.ParseData, the returned Config projected to "
                           "plain data and compared with ConfigFile!Meaning by TLC; invalid ones must be rejected. Acceptance of a valid "
                           "description is not demanded (counted in case_classes so that the faithful branch is not vacuous)",
                      assumptions=["the renderer (lib/cfggen.py) writes what the description says"])


def c09(pid, tier, replay):
    scr = vlib.Scratch(pid)
    out = casecheck.CaseOutcome(pid, tier, ["C09_"])
    h = scr.build()
    hidi = build_hidi(scr)
    seed = vlib.seed()
    if replay:
        import base64
        with open(replay) as f:
            rp = json.load(f)
        c = rp["case"]
        text = base64.b64decode(c["input_b64"]).decode("latin-1") if c.get("input_b64") else ""
        cases = [{"id": 1, "kind": "replay", "toml": text}]
        t = run_parse_cases(scr, h, cases, "c09r")
        out.add(t, vlib.validate_trace(scr, "ConfigFileTrace", t))
        return out.finish(rule="replay")
    # (a) structured: valid TOML with missing / extra / ill-typed fields, descriptions of C10 as well
    texts = cfggen.c09_structured(seed, tier)
    cases = [{"id": i + 1, "kind": "structured", "toml": x} for i, x in enumerate(texts)]
    for c in cfggen.c10_cases(seed, "quick"):
        cases.append({"id": len(cases) + 1, "kind": "described", "toml": c["toml"]})
    t1 = run_parse_cases(scr, h, cases, "c09s")
    # ... and the way the running application reads them: as a file in a configuration directory, through the loader
    # (directory walk, readDeviceConfig and its error reporting are outside ParseData's guard)
    lcases = cases if tier == "thorough" else cases[::3]
    t1b = run_parse_cases(scr, h, lcases, "c09l", sub="loadparse", extra=[scr.path("loadparse-tree")])
    # (b) byte-level mutations of the shipped files and of rendered ones
    files = sorted(glob.glob(os.path.join(scr.repo, "cmd/hidi/hidi-config/factory/*/*.toml")))
    import random
    rng = random.Random(seed)
    for i in range(2):
        p = scr.fresh("rendered") + ".toml"
        with open(p, "w") as f:
            f.write(cfggen.render(cfggen.valid_desc(rng, full=True), ["inline", "header"][i]))
        files.append(p)
    t2 = scr.fresh("c09f") + ".ndjson"
    nrand = 3000 if tier == "quick" else 60000
    if tier == "quick":
        files = files[:1] + files[2:3] + files[-2:]
    fz = subprocess.run([h, "parsefuzz", str(seed), str(nrand), t2] + files, stdout=subprocess.PIPE, stderr=subprocess.PIPE, text=True, timeout=3000)
    if fz.returncode != 0:
        if not hidi_abort(fz.stderr):
            raise Infra("verifh parsefuzz failed: " + fz.stderr[-3000:])
        # the runtime aborted: same seed again, one input at a time, each noted, to learn which input it was
        cur = scr.fresh("c09f-cur") + ".json"
        fz = subprocess.run([h, "parsefuzz", str(seed), str(nrand), t2] + files, stdout=subprocess.PIPE, stderr=subprocess.PIPE, text=True,
                            timeout=3000, env=dict(os.environ, VERIFH_SERIAL="1", VERIFH_CUR=cur))
        if fz.returncode == 0 or not (hidi_abort(fz.stderr) and os.path.exists(cur)):
            raise Infra("verifh parsefuzz aborted, and did not when run serially: " + fz.stderr[-2000:])
        with open(t2, "w") as o:
            o.write(json.dumps(abort_line(cur, fz.stderr)) + "\n")
    # (c) hidi.toml through the application's own LoadHIDIConfig
    hdir = scr.path("hiditoml")
    os.makedirs(hdir, exist_ok=True)
    hfiles = []
    htexts = cfggen.hidi_toml_cases(seed, tier)
    shipped = open(os.path.join(scr.repo, "cmd/hidi/hidi-config/hidi.toml"), "rb").read()
    for i in range(0, len(shipped) + 1, 1 if tier == "thorough" else 7):
        htexts.append(shipped[:i].decode("latin-1"))
    for i, x in enumerate(htexts):
        p = os.path.join(hdir, "h%d.toml" % i)
        with open(p, "wb") as f:
            f.write(x.encode("latin-1", "replace"))
        hfiles.append(p)
    t3 = scr.fresh("c09h") + ".ndjson"
    with open(t3, "w") as o:
        for i in range(0, len(hfiles), 200):
            r = subprocess.run([hidi] + hfiles[i:i + 200], env=dict(os.environ, HIDI_VERIF_OP="hidiconfig"), stdout=o,
                               stderr=subprocess.PIPE, text=True, timeout=600)
            if r.returncode != 0:
                raise Infra("cmd/hidi verif entry failed: " + r.stderr[-2000:])
    fuzz_total = 0
    for t in (t1, t1b, t2, t3):
        r = vlib.validate_trace(scr, "ConfigFileTrace", t)
        out.add(t, r, sample_filter=lambda d: d.get("ev") in ("parse", "hidiconfig"))
    with open(t2) as f:
        for line in f:
            d = json.loads(line)
            if d.get("ev") == "fuzzsummary":
                fuzz_total = d["total"]
                out.extra["fuzz_outcomes"] = d["counts"]
    out.extra["evaluations"] = len(cases) + fuzz_total + len(hfiles)
    out.notes.append("%d structured / described TOML texts, %d byte-level mutations (truncation at every byte, deletion and duplication "
                     "of every line, flips, splices, random bytes) of %d files, %d hidi.toml texts through LoadHIDIConfig; each with a "
                     "panic guard and a 5 s watchdog" % (len(cases), fuzz_total, len(files), len(hfiles)))
    return out.finish(rule="every input is parsed by the real ParseData / LoadHIDIConfig; outcome must be a configuration or an error; "
                           "mutation cases are counted, only crashes are logged line by line; distinct_nontrivial = logged cases",
                      assumptions=["'all byte strings up to 64 KiB' is sampled by mutation, not exhausted"])


REGISTRY["C09"] = c09
REGISTRY["C10"] = c10


def fan_scenarios(seed, tier):
    """Operation sequences for the fan-out: the lasso TLC finds on the single-mutex design (a consumer
    stops reading, its buffer fills, it is detached) in several shapes, and seeded random sequences of
    spawn / inject / stop / despawn obeying the life cycle; every stopped consumer is despawned later."""
    import random
    rng = random.Random(seed * 389 + 5)
    scs = []
    def add(cap, ops, fair=True):
        scs.append({"id": len(scs) + 1, "cap": cap, "fair": fair, "ops": ops})
    for cap in (0, 1, 2, 8):
        ocap = max(1, cap)
        burst = [{"op": "inject", "m": i + 1} for i in range(ocap + cap + 3)]
        add(cap, [{"op": "spawn", "c": "a"}, {"op": "stop", "c": "a"}] + burst + [{"op": "despawn", "c": "a"}])
        add(cap, [{"op": "spawn", "c": "a"}, {"op": "spawn", "c": "b"}, {"op": "stop", "c": "a"}] + burst +
            [{"op": "despawn", "c": "a"}] + [{"op": "inject", "m": 50 + i} for i in range(4)])
        add(cap, [{"op": "spawn", "c": "a"}, {"op": "spawn", "c": "b"}, {"op": "stop", "c": "a"}, {"op": "stop", "c": "b"}] + burst +
            [{"op": "despawn", "c": "a"}, {"op": "despawn", "c": "b"}, {"op": "spawn", "c": "c"}] +
            [{"op": "inject", "m": 50 + i} for i in range(4)])
        add(cap, [{"op": "spawn", "c": "a"}, {"op": "stop", "c": "a"}] + burst + [{"op": "spawn", "c": "b"}, {"op": "despawn", "c": "a"}] +
            [{"op": "inject", "m": 50 + i} for i in range(3)])
        # a round blocked on a consumer that stopped reading, OTHER consumers detached meanwhile (their removal has to wait
        # for the round), then the blocker detached: the round goes on over outputs that are being removed
        for rep in range(5):
            others = ["b", "c", "d"][:1 + rep % 3]
            add(cap, [{"op": "spawn", "c": x} for x in ["a"] + others] + [{"op": "stop", "c": "a"}] + burst +
                [{"op": "despawn", "c": x} for x in others] + [{"op": "despawn", "c": "a"}, {"op": "spawn", "c": "e"}] +
                [{"op": "inject", "m": 60 + i} for i in range(3)])
        # ... and consumers that STAY attached and reading while one of the others is detached during the blocked round:
        # they still receive every message (the order in which a round visits the outputs is random: repeated)
        for rep in range(12):
            gone = ["b", "c"][:1 + rep % 2]
            add(cap, [{"op": "spawn", "c": x} for x in ["a", "b", "c", "d", "e"]] + [{"op": "stop", "c": "a"}] + burst +
                [{"op": "despawn", "c": x} for x in gone] + [{"op": "despawn", "c": "a"}] + [{"op": "inject", "m": 60 + i} for i in range(3)])
        # four consumers that all stopped reading, a round blocked on the first full one, all four detached one after the
        # other: each removal frees one blocked delivery while earlier removals are still waiting to close their channels
        for rep in range(4):
            four = ["a", "b", "c", "d"]
            rng.shuffle(four)
            add(cap, [{"op": "spawn", "c": x} for x in four] + [{"op": "stop", "c": x} for x in four] + burst +
                [{"op": "despawn", "c": x} for x in four] + [{"op": "spawn", "c": "e"}] + [{"op": "inject", "m": 60 + i} for i in range(3)])
    # devices attached at the same moment (the manager starts every device from a goroutine of its own): each gets an output
    # of its own, each receives everything injected afterwards, each can be removed
    # (the window in which two attaching devices can see the same free slot is a few instructions wide: three waves per
    # scenario, many scenarios)
    for rep in range(120 if tier == "quick" else 1000):
        pre = [{"op": "spawn", "c": "z"}] if rep % 3 == 0 else []
        ops, m = list(pre), 0
        for wave in (1, 2, 3):
            many = [x + str(wave) for x in ["a", "b", "c", "d", "e", "f"][:2 + (rep + wave) % 5]]
            ops.append({"op": "spawn_many", "cs": many})
            for _ in range(3):
                m += 1
                ops.append({"op": "inject", "m": m})
            ops += [{"op": "despawn", "c": x} for x in many]
        m += 1
        add(rng.choice([0, 1, 8]), ops + [{"op": "inject", "m": m}])
    n = 150 if tier == "quick" else 3000
    names = ["a", "b", "c", "d"]
    for _ in range(n):
        cap = rng.choice([0, 1, 2, 8])
        state = {c: "out" for c in names}
        ops, m = [], 0
        for _ in range(rng.randrange(4, 40)):
            r = rng.random()
            c = rng.choice(names)
            if r < 0.45:
                m += 1
                ops.append({"op": "inject", "m": m})
            elif r < 0.65 and state[c] == "out":
                state[c] = "in"
                ops.append({"op": "spawn", "c": c})
            elif r < 0.78 and state[c] == "in":
                state[c] = "stopped"
                ops.append({"op": "stop", "c": c})
            elif state[c] in ("in", "stopped") and r >= 0.78:
                state[c] = "gone"
                ops.append({"op": "despawn", "c": c})
        for c in names:
            if state[c] == "stopped":
                ops.append({"op": "despawn", "c": c})
        add(cap, ops)
    return scs


def c15(pid, tier, replay):
    scr = vlib.Scratch(pid)
    out = casecheck.CaseOutcome(pid, tier, ["C15_"])
    t0 = time.time()
    # the design, exhaustively: all interleavings of runner, spawns, despawns, consumers
    consts = 'CONSTANTS\n  Design = "two_mutex"\n  Consumers = %s\n  NMsg = %d\n  Cap = 1\n'
    runs = [('{"a", "b"}', 3)] if tier == "quick" else [('{"a", "b"}', 4), ('{"a", "b", "c"}', 2)]
    for cons, nmsg in runs:
        cfg = ("SPECIFICATION Spec\n" + consts % (cons, nmsg) +
               "INVARIANTS NoSendOnClosed PerConsumerOrder NoExtra DeliveredWhileConnected TypeOK\n"
               "PROPERTIES DespawnCompletes EventuallyReceived\nCHECK_DEADLOCK FALSE\n")
        res = vlib.run_tlc(scr, "FanOut", cfg, workers=8, timeout=2400)
        if not res.completed:
            raise Infra("FanOut.tla (design two_mutex, the design in the tree) does not satisfy its properties:\n" + res.tail(40))
        out.states += res.distinct
        out.transitions += res.generated
        out.notes.append("FanOut.tla Design=two_mutex Consumers=%s NMsg=%d Cap=1: %d distinct states, safety + liveness hold"
                         % (cons, nmsg, res.distinct))
    h = scr.build()
    if replay:
        with open(replay) as f:
            rp = json.load(f)
        c = rp["case"]
        scs = [{"id": 1, "cap": c.get("cap", 1), "fair": c.get("fair", True),
                "ops": [{"op": o["op"], "c": o.get("c", ""), "m": o.get("m", 0)} for o in c["ops"] if o.get("m", 0) not in c.get("sentinels", [])]}]
    else:
        scs = fan_scenarios(vlib.seed(), tier)
    spath = scr.fresh("fan") + ".json"
    with open(spath, "w") as f:
        json.dump(scs, f)
    t = scr.fresh("fanout") + ".ndjson"
    fr = subprocess.run([h, "fanout", spath, t], stdout=subprocess.PIPE, stderr=subprocess.PIPE, text=True, timeout=1800)
    if fr.returncode != 0:
        # a panic in the fan-out's own goroutine (send on a closed channel) takes the harness down: that is the behaviour
        # C15 forbids.  Same scenarios again, one at a time, each noted, to attribute it.
        if not hidi_abort(fr.stderr):
            raise Infra("verifh fanout failed: " + fr.stderr[-3000:])
        open(t, "w").close()
        rest = scs
        for attempt in range(4):
            with open(spath, "w") as f:
                json.dump(rest, f)
            part, cur = scr.fresh("fanout-part") + ".ndjson", scr.fresh("fanout-cur") + ".json"
            fr = subprocess.run([h, "fanout", spath, part], stdout=subprocess.PIPE, stderr=subprocess.PIPE, text=True, timeout=3000,
                                env=dict(os.environ, VERIFH_SERIAL="1", VERIFH_CUR=cur))
            done = open(part).read() if os.path.exists(part) else ""
            done = "".join(x + "\n" for x in done.splitlines() if x.endswith("}"))
            with open(t, "a") as o:
                o.write(done)
            if fr.returncode == 0:
                break
            if not (hidi_abort(fr.stderr) and os.path.exists(cur)):
                raise Infra("verifh fanout failed (serial rerun): " + fr.stderr[-3000:])
            d = abort_line(cur, fr.stderr)
            d["crash"] = d.pop("msg")
            with open(t, "a") as o:
                o.write(json.dumps(d) + "\n")
            seen = {json.loads(x)["id"] for x in done.splitlines()} | {d["id"]}
            rest = [s for s in rest if s["id"] not in seen]
            if not rest or attempt == 3:
                break
    r = vlib.validate_trace(scr, "FanOutHistTrace", t)
    out.add(t, r, sample_filter=lambda d: len(d.get("ops", [])) < 14)
    if not replay:
        t2 = scr.fresh("relay") + ".ndjson"
        nruns = 6 if tier == "quick" else 40
        run_cmd([h, "relay", str(nruns), "4", "300", "1", t2], timeout=600)
        run_cmd([h, "relay", str(nruns), "16", "100", "0", t2 + ".b"], timeout=600)
        for tf in (t2, t2 + ".b"):
            out.add(tf, vlib.validate_trace(scr, "FanOutHistTrace", tf), sample_filter=lambda d: False)
    out.notes.append("%d fan-out operation histories (the stopped-consumer lasso in several shapes, seeded random life cycles), "
                     "relay runs with 4-16 concurrent emitters and a live input stream" % len(scs))
    return out.finish(rule="one case = one history of the real DynamicFanOut (or relay) driven by an orchestrator that logs logical "
                           "call/return times and what each consumer received; judged by FanOutHist!Judge",
                      assumptions=["'never completes' is decided by a 2 s bound after which the goroutine dump is attached; the measured "
                                   "latency of a completing call is microseconds",
                                   "application shutdown (the relay returns on cancellation without draining) is outside the quantifier"])


REGISTRY["C15"] = c15


def c18(pid, tier, replay):
    import random
    import upkeep
    scr = vlib.Scratch(pid)
    out = casecheck.CaseOutcome(pid, tier, ["C18_"])
    # the design, exhaustively (every file state x missing directories x crash after every mutation x 3 runs)
    cfg = ('SPECIFICATION Spec\nCONSTANTS\n  Template <- T\n  UserPaths <- U\n  Root = "hidi-config"\n'
           '  Blacklist = "hidi-config/device blacklist.txt"\n  MaxRuns = %d\n'
           'INVARIANTS UserUntouchedStep BlacklistOnlyCreated Restored CompleteWhenAbsent\n'
           'PROPERTIES UserNeverLost NoMutationWhenRestored\nCHECK_DEADLOCK FALSE\n' % (3 if tier == "quick" else 4))
    res = vlib.run_tlc(scr, "MC_upkeep", cfg, workers=8, timeout=1200)
    if not res.completed:
        raise Infra("Upkeep.tla does not satisfy its properties:\n" + res.tail(40))
    out.states += res.distinct
    out.transitions += res.generated
    out.notes.append("Upkeep.tla (3 factory files x 6 states, directories missing, crash after every mutation): %d distinct states, "
                     "all properties hold" % res.distinct)
    hidi = build_hidi(scr)
    tpl, files = upkeep.load_template(scr.repo)
    if replay:
        with open(replay) as f:
            rp = json.load(f)
        want = rp["case"].get("tree")
        trees = [t for t in upkeep.gen_trees(tpl, files, rp.get("seed", vlib.seed()), "thorough") if t[0] == want] or \
                upkeep.gen_trees(tpl, files, vlib.seed(), "quick")[:3]
    else:
        trees = upkeep.gen_trees(tpl, files, vlib.seed(), tier)
    crash_points = 8 if tier == "quick" else 400
    rng = random.Random(vlib.seed())
    lines_all = []
    def one(i_t):
        i, (name, spec) = i_t
        wd = scr.path("upk-%d" % (i % 16))
        return upkeep.run_case(hidi, wd + "-%d" % i, name, spec, files, random.Random(vlib.seed() * 1000 + i), crash_points)
    with ThreadPoolExecutor(max_workers=12) as ex:
        for ls in ex.map(one, enumerate(trees)):
            lines_all.extend(ls)
    t = scr.fresh("upkeep") + ".ndjson"
    with open(t, "w") as f:
        f.write(json.dumps({"ev": "template", "entries": tpl, "root": upkeep.ROOT, "blacklist": upkeep.BL}) + "\n")
        for l in lines_all:
            f.write(json.dumps(l) + "\n")
    r = vlib.validate_trace(scr, "UpkeepHistTrace", t, xmx="4g")
    out.add(t, r, sample_filter=lambda d: d.get("kind") == "crashed" and len(d.get("muts", [])) > 1)
    out.extra["initial_trees"] = len(trees)
    out.extra["crash_runs"] = sum(1 for l in lines_all if l["kind"] == "crashed")
    out.notes.append("%d initial trees (directory missing; each factory file absent / empty / truncated / modified / longer; factory "
                     "directories missing; seeded combinations; user files, custom hidi.toml and blacklist, extra files), each run "
                     "twice, plus SIGKILL at up to %d file-system calls per tree followed by an undisturbed run" % (len(trees), crash_points))
    return out.finish(rule="one case = one run of the real updateHIDIConfiguration under strace on a prepared tree; judged by "
                           "UpkeepHist!Judge from the mutation list and the tree snapshots before/after",
                      assumptions=["files replaced by directories, symlinks and permission errors are outside the quantifier",
                                   "interruption = SIGKILL on entering a file-system call (strace fault injection)"])


REGISTRY["C18"] = c18


def watcher_scenarios(seed, tier):
    import random
    rng = random.Random(seed * 167 + 3)
    dirs = ["hidi-config/factory/gamepad/", "hidi-config/factory/keyboard/", "hidi-config/user/gamepad/", "hidi-config/user/keyboard/"]
    toml = ["a.toml", "b.toml", "c.toml", "UPPER.TOML", "with space.toml", "Mixed.Toml", "x.tOmL"]
    other = ["notes.txt", "a.toml.bak", "README", "atoml", "x.tom", "a.toml~", ".toml.swp"]
    scs = []
    def add(ops):
        scs.append({"id": len(scs) + 1, "ops": ops})
    W = lambda f: {"op": "write", "file": f}
    add([W(dirs[3] + "a.toml")])
    add([W(dirs[0] + "Mixed.Toml"), W(dirs[1] + "x.tOmL"), W(dirs[2] + "UPPER.TOML")])          # any letter case of the extension
    add([W(d + "a.toml") for d in dirs])
    add([W(dirs[0] + n) for n in other])
    add([W(dirs[2] + "a.toml")] * 5)                                  # burst on one file
    add([{"op": "pause"}] + [W(dirs[i % 4] + toml[i % 5]) for i in range(12)] + [{"op": "resume"}])
    add([W(dirs[0] + "a.toml"), {"op": "cancel"}, W(dirs[0] + "b.toml")])
    add([{"op": "pause"}, W(dirs[0] + "a.toml"), W(dirs[1] + "b.toml"), {"op": "cancel"}])
    add([{"op": "cancel"}])
    add([W(dirs[1] + "nested/a.toml"), W(dirs[1] + "b.toml")])
    T = lambda f: {"op": "trunc", "file": f}
    # writes of one file with only event-less (nested) writes between them may be merged by the kernel
    add([{"op": "pause"}, W(dirs[2] + "UPPER.TOML"), W(dirs[0] + "nested/c.toml"), W(dirs[3] + "nested/a.toml"), W(dirs[2] + "UPPER.TOML"),
         {"op": "resume"}])
    add([T(dirs[3] + "a.toml")])                                       # a modification that leaves the file empty
    add([W(dirs[0] + "b.toml"), T(dirs[2] + "c.toml"), W(dirs[2] + "notes.txt"), T(dirs[0] + "notes.txt"), W(dirs[2] + "c.toml")])
    # a notification still waiting for a late consumer when the application shuts down
    for k in (3, 10, 40):
        add([{"op": "pause"}, W(dirs[k % 4] + "a.toml")] + [{"op": "sleep"}] * k + [{"op": "cancel"}])
    add([W(dirs[1] + "b.toml"), {"op": "pause"}, W(dirs[1] + "c.toml"), W(dirs[2] + "c.toml")] + [{"op": "sleep"}] * 10 + [{"op": "cancel"}, {"op": "resume"}])
    # shut down while the watcher is still setting itself up, and with one of the four directories absent
    for k in (0, 0, 1, 3):
        scs.append({"id": len(scs) + 1, "ops": [{"op": "sleep"}] * k + [{"op": "cancel"}], "early": True})
    for d in (dirs[2], dirs[0]):
        scs.append({"id": len(scs) + 1, "ops": [W(dirs[1] + "a.toml"), W(dirs[3] + "b.toml"), {"op": "cancel"}], "missing": d.rstrip("/")})
    P = lambda f: {"op": "pwrite", "file": f}
    add([P(dirs[1] + "a.toml")] * 4)                                  # one file edited again and again, each edit noticed before the next
    add([P(dirs[0] + "UPPER.TOML"), {"op": "sleep"}, P(dirs[0] + "UPPER.TOML"), W(dirs[0] + "notes.txt"), P(dirs[0] + "UPPER.TOML")])
    add([P(dirs[2] + "b.toml"), P(dirs[3] + "b.toml"), P(dirs[2] + "b.toml"), P(dirs[2] + "b.toml"), T(dirs[2] + "b.toml")])
    n = 25 if tier == "quick" else 400
    for _ in range(n):
        ops = []
        paused = False
        if rng.random() < 0.3:                                          # a paced prefix: the same few files, each edit noticed
            fs = [rng.choice(dirs) + rng.choice(toml) for _ in range(2)]
            ops += [P(rng.choice(fs)) for _ in range(rng.randrange(2, 7))]
        for _ in range(rng.randrange(1, 25)):
            r = rng.random()
            if r < 0.08:
                ops.append(T(rng.choice(dirs) + rng.choice(toml + other)))
            elif r < 0.55:
                ops.append(W(rng.choice(dirs) + rng.choice(toml)))
            elif r < 0.8:
                ops.append(W(rng.choice(dirs) + rng.choice(other)))
            elif r < 0.86:
                ops.append({"op": "resume" if paused else "pause"})
                paused = not paused
            elif r < 0.9:
                ops.append({"op": "sleep"})
            elif r < 0.93:
                ops.append({"op": "cancel"})
            else:
                ops.append(W(rng.choice(dirs) + "nested/" + rng.choice(toml)))
        add(ops)
    return scs


def c19(pid, tier, replay):
    scr = vlib.Scratch(pid)
    out = casecheck.CaseOutcome(pid, tier, ["C19_"])
    cfg = ("SPECIFICATION Spec\nCONSTANTS\n  Files <- MCFiles\n  NWrites = %d\nINVARIANTS NoneForOthers NoNotificationAfterClose\n"
           "PROPERTIES Notified StreamEnds\nCHECK_DEADLOCK FALSE\n" % (4 if tier == "quick" else 6))
    res = vlib.run_tlc(scr, "MC_watcher", cfg, workers=4, timeout=900)
    if not res.completed:
        raise Infra("Watcher.tla does not satisfy its properties:\n" + res.tail(40))
    out.states += res.distinct
    out.transitions += res.generated
    out.notes.append("Watcher.tla (kernel queue with coalescing, filter, unbuffered hand-off, prompt/late consumer, cancel anywhere): "
                     "%d distinct states, safety and liveness hold" % res.distinct)
    h = scr.build()
    if replay:
        with open(replay) as f:
            rp = json.load(f)
        scs = [{"id": 1, "ops": [{"op": "write", "file": w} for w in rp["case"].get("writes", []) if "zz_barrier" not in w]}]
    else:
        scs = watcher_scenarios(vlib.seed(), tier)
    sp = scr.fresh("watch") + ".json"
    with open(sp, "w") as f:
        json.dump(scs, f)
    t = scr.fresh("watcher") + ".ndjson"
    open(t, "w").close()
    rest = scs
    for attempt in range(4):
        # a run-time abort (panic in one of the watcher's goroutines) with HIDI frames on the stack is a verdict for the
        # scenario that was running: logged as crashed, the remaining scenarios run in a fresh process
        with open(sp, "w") as f:
            json.dump(rest, f)
        part, cur = scr.fresh("watcher-part") + ".ndjson", scr.fresh("watcher-cur") + ".json"
        r = subprocess.run([h, "watcher", sp, scr.path("watch-trees"), part], stdout=subprocess.PIPE, stderr=subprocess.PIPE, text=True,
                           timeout=3000, env=dict(os.environ, VERIFH_CUR=cur))
        done = open(part).read() if os.path.exists(part) else ""
        with open(t, "a") as o:
            o.write(done)
        if r.returncode == 0:
            break
        if not (hidi_abort(r.stderr) and os.path.exists(cur)):
            raise Infra("verifh watcher failed: " + r.stderr[-3000:])
        d = abort_line(cur, r.stderr)
        with open(t, "a") as o:
            o.write(json.dumps(d) + "\n")
        seen = {json.loads(x)["id"] for x in done.splitlines()} | {d["id"]}
        rest = [s for s in rest if s["id"] not in seen]
        if not rest or attempt == 3:
            break
    out.add(t, vlib.validate_trace(scr, "WatcherHistTrace", t), sample_filter=lambda d: 2 < len(d.get("writes", [])) < 9)
    out.notes.append("%d scenarios: isolated writes and bursts on TOML and non-TOML files in the four directories (one write(2) on an "
                     "O_APPEND descriptor = one inotify event), consumer prompt or paused, cancellation at arbitrary points, files in "
                     "nested directories (unconstrained)" % len(scs))
    return out.finish(level="exploration",
                      rule="one case = one run of the real DetectDeviceConfigChanges; notification counts up to two barrier writes and the "
                           "end of the stream after cancellation judged by WatcherHist!Judge",
                      assumptions=["inotify delivers events of one instance in order; identical consecutive unread events may be merged",
                                   "a notification that should not exist is looked for during 150 ms after the barriers; a missing one "
                                   "and a stream that does not end are decided after 10 s"])


REGISTRY["C19"] = c19


# ---------------------------------------------------------------------------------------------
# LED feedback and life cycle (C17, C16): the real LED goroutine against a fake OpenRGB server

LED_COLORS = {"white": [200, 200, 200], "black": [20, 20, 90], "c": [0, 200, 0], "unavailable": [60, 0, 60], "other": [1, 2, 3],
              "active": [250, 250, 0], "active_external": [0, 250, 250]}
LED_LAYOUTS = [
    ["KEY_ESC", "KEY_F1", "KEY_F2", "KEY_F5", "KEY_F6", "KEY_F11", "KEY_F12", "KEY_A", "KEY_S", "KEY_D", "KEY_Z", "other:Logo"],
    ["other:Logo", "KEY_Z", "KEY_D", "KEY_S", "KEY_A", "KEY_F12", "KEY_F11", "KEY_F6", "KEY_F5", "KEY_F2", "KEY_F1", "KEY_ESC"],
    ["KEY_F1", "KEY_D", "other:Logo", "KEY_A", "KEY_F2", "KEY_F5", "KEY_F11", "KEY_S"],   # action key at index 0, some without LED
]

_unshare_ok = None


class LedAbort(Exception):
    """The LED harness process was taken down by the Go runtime (unrecovered panic / fatal error) with HIDI code on a
    stack: the behaviour itself, not an infrastructure problem."""
    def __init__(self, stderr, batches):
        Exception.__init__(self, "LED harness aborted")
        self.stderr, self.batches = stderr, batches

    def frames(self):
        return [l.strip() for l in self.stderr.splitlines() if "gethiox/HIDI/internal/pkg" in l and "/internal/verif/" not in l][:6]

    def head(self):
        return " / ".join([l for l in self.stderr.splitlines() if l.startswith(("fatal error:", "panic:"))][:2])[:300]


def run_led(scr, batches, tag="led", race=False, extra_env=None):
    """Run `verifh led` inside a mount namespace whose /sys/class/hidraw maps hidraw7 -> event3."""
    global _unshare_ok
    h = scr.build(race=race)
    sysdir = scr.fresh("sys")
    os.makedirs(os.path.join(sysdir, "hidraw7/device/input/input5/event3"))
    bpath = scr.fresh(tag + "-batches") + ".json"
    tpath = scr.fresh(tag + "-trace") + ".ndjson"
    for b in batches:
        b.setdefault("event", "event3")
        b.setdefault("hidraw", "hidraw7")
    with open(bpath, "w") as f:
        json.dump(batches, f)
    env = dict(os.environ)
    if extra_env:
        env.update(extra_env)
    cmd = ["unshare", "-m", "--", "sh", "-c",
           'mount --bind "$1" /sys/class/hidraw && shift && exec "$@"', "sh", sysdir, h, "led", bpath, tpath]
    r = subprocess.run(cmd, stdout=subprocess.PIPE, stderr=subprocess.PIPE, text=True, timeout=3000, env=env)
    if r.returncode != 0 and ("unshare" in r.stderr or "mount" in r.stderr or "Operation not permitted" in r.stderr):
        raise Infra("cannot provide /sys/class/hidraw through a mount namespace in this sandbox: " + r.stderr[-500:])
    if r.returncode != 0 and not (race and r.returncode == 66):
        if hidi_abort(r.stderr):
            raise LedAbort(r.stderr, batches)
        raise Infra("LED harness failed: " + r.stderr[-3000:])
    return tpath, r.stderr


def led_jobs(scr, out, tier):
    """Bounded LED models: quick = octave cut and semitone cut; thorough = the product with two channels, two held keys."""
    if tier == "quick":
        cfgs = [{"OctB": 1, "SemiB": 0, "ChanB": 0, "MaxHeld": 1}, {"OctB": 0, "SemiB": 2, "ChanB": 1, "MaxHeld": 0}]
    else:
        cfgs = [{"OctB": 1, "SemiB": 1, "ChanB": 1, "MaxHeld": 1}, {"OctB": 2, "SemiB": 0, "ChanB": 0, "MaxHeld": 2}]
    allwalks, cfgj = [], None
    for consts in cfgs:
        def cfgtext(view, dump, invs):
            lines = ["CONSTANTS"] + ["  %s = %s" % (k, vlib.tla_value(v)) for k, v in consts.items()]
            lines += ["  DumpEdges = %s" % ("TRUE" if dump else "FALSE"), "INIT Init", "NEXT Next", "CHECK_DEADLOCK FALSE", "ACTION_CONSTRAINT Dump"]
            if invs:
                lines += ["INVARIANTS NoViolation CntConsistent TrackedAreHeld", "PROPERTY ExtOnlyByMidiOrPanic"]
            lines.append("VIEW " + view)
            return "\n".join(lines) + "\n"
        res = vlib.run_tlc(scr, "MC_led", cfgtext("ViewLed", False, True), workers=8, timeout=2400)
        if not res.completed:
            raise Infra("MC_led failed:\n" + res.tail(40))
        out.add_mc("MC_led %s" % consts, res)
        dump = scr.fresh("dump") + ".out"
        res2 = vlib.run_tlc(scr, "MC_led", cfgtext("ViewStLed", True, False), workers=8, timeout=2400, outname=dump)
        if not res2.completed:
            raise Infra("MC_led dump failed:\n" + res2.tail(20))
        tg = scr.build_tool("tourgen")
        walks = scr.fresh("walks") + ".json"
        r = subprocess.run([tg, "-cap", "400", "-o", walks, dump], stdout=subprocess.PIPE, stderr=subprocess.PIPE, text=True)
        os.remove(dump)
        if r.returncode != 0:
            raise Infra("tourgen failed: " + r.stderr)
        with open(walks) as f:
            d = json.load(f)
        d["cfg"] = devcheck.fix_cfg_json(d["cfg"])
        d["graph_states"], d["graph_transitions"] = res2.distinct, res2.generated
        out.add_tour("MC_led %s" % consts, d)
        allwalks.extend(d["walks"])
        cfgj = d["cfg"]
    return {"cfg": cfgj, "walks": allwalks}


def led_batches(cfg, walks, ngroups):
    groups = devcheck.split_walks(walks, ngroups)
    return [[{"cfg": cfg, "colors": LED_COLORS, "layout": LED_LAYOUTS[i % len(LED_LAYOUTS)], "walks": g}] for i, g in enumerate(groups)]


def c17(pid, tier, replay):
    scr = vlib.Scratch(pid)
    out = devcheck.Outcome(pid, tier, ["C17_"])
    scr.build()
    if replay:
        with open(replay) as f:
            rp = json.load(f)
        c = rp["cfg"]
        steps = []
        for e in rp["events"]:
            if e.get("ev") == "midiin":
                steps.append({"ev": "midiin", "msg": e["msgin"]})
            else:
                steps.extend(events_to_inputs([e]))
        groups = [[{"cfg": c["cfg"], "colors": c["colors"], "layout": c["layout"], "walks": [steps]}]]
    else:
        d = led_jobs(scr, out, tier)
        groups = led_batches(d["cfg"], d["walks"], 13)
        # far transposition (beyond the bounded model): every key goes out of range, highlights keep following
        far = []
        for down, up in (("KEY_F1", "KEY_F2"), ("KEY_F2", "KEY_F1"), ("KEY_F3", "KEY_F4")):
            w = [{"ev": "press", "k": "KEY_S"}, {"ev": "midiin", "msg": [144, 62, 90]}]
            for _ in range(22 if "F3" not in down else 120):      # beyond where an 8-bit intermediate wraps back into 0-127
                w += [{"ev": "press", "k": down}, {"ev": "release", "k": down}]
            w += [{"ev": "release", "k": "KEY_S"}, {"ev": "press", "k": "KEY_D"}]
            for _ in range(44 if "F3" not in down else 240):
                w += [{"ev": "press", "k": up}, {"ev": "release", "k": up}]
            w += [{"ev": "release", "k": "KEY_D"}, {"ev": "disconnect"}]
            far.append(w)
        # semitone and octave far apart in opposite directions: note + semitone alone is far below 0 (above 127) while the
        # transposed pitch is back inside the range - every pitch class is passed semitone by semitone
        for semi, octv in (("KEY_F3", "KEY_F2"), ("KEY_F4", "KEY_F1")):
            w = [{"ev": "midiin", "msg": [144, 61, 90]}]
            for n_semi, n_oct in ((55, 1), (30, 1), (15, 1), (14, 0)):
                for _ in range(n_semi):
                    w += [{"ev": "press", "k": semi}, {"ev": "release", "k": semi}]
                for _ in range(n_oct):
                    w += [{"ev": "press", "k": octv}, {"ev": "release", "k": octv}]
            far.append(w + [{"ev": "press", "k": "KEY_S"}, {"ev": "disconnect"}])
        # all sixteen channels: the channel keys show the channel's colour, dimmed at the ends; MIDI-in notes on
        # the channel that becomes current turn to the external colour
        w = [{"ev": "midiin", "msg": [0x95, 60, 80]}, {"ev": "midiin", "msg": [0x9F, 62, 80]}]
        for k, n in (("KEY_F6", 16), ("KEY_F5", 17)):
            for _ in range(n):
                w += [{"ev": "press", "k": k}, {"ev": "release", "k": k}]
        far.append(w + [{"ev": "disconnect"}])
        # one pitch sounding several times over: on MIDI input on the current channel and on channels below and
        # above it, and from the keyboard - the precedence active > external (current channel) > a channel's colour
        import random as _r
        rng = _r.Random(vlib.seed() * 41 + 7)
        for cur in (0, 1, 7, 15):
            w = []
            for _ in range(cur):
                w += [{"ev": "press", "k": "KEY_F6"}, {"ev": "release", "k": "KEY_F6"}]
            chans = sorted({0, cur, 15, (cur + 15) % 16, (cur + 1) % 16})
            rng.shuffle(chans)
            for ch in chans:
                w.append({"ev": "midiin", "msg": [0x90 + ch, 60, 70]})
            w += [{"ev": "press", "k": "KEY_A"}, {"ev": "midiin", "msg": [0x90 + cur, 62, 1]}, {"ev": "press", "k": "KEY_D"},
                  {"ev": "release", "k": "KEY_A"}, {"ev": "release", "k": "KEY_D"}]
            rng.shuffle(chans)
            for ch in chans:
                w.append({"ev": "midiin", "msg": [0x80 + ch, 60, 0] if ch % 2 else [0x90 + ch, 60, 0]})
            far.append(w + [{"ev": "disconnect"}])
        groups.append([{"cfg": d["cfg"], "colors": LED_COLORS, "layout": LED_LAYOUTS[0], "walks": far}])
        # a controller with LEDs that are not keys and that the device treats specially (the light bar of the one keyboard
        # model it knows by name is kept dark): the keys' LEDs - the first of the sequence included - show what they always show
        hx = ["KEY_A", "KEY_F1", "KEY_F2", "KEY_S"] + ["other:RGB Strip %d" % i for i in range(1, 19)] + ["KEY_D", "KEY_ESC"]
        whx = []
        for k in ("KEY_F1", "KEY_F2"):
            w = [{"ev": "press", "k": "KEY_A"}, {"ev": "release", "k": "KEY_A"}]
            for _ in range(12):
                w += [{"ev": "press", "k": k}, {"ev": "release", "k": k}]
            whx.append(w + [{"ev": "press", "k": "KEY_S"}, {"ev": "disconnect"}])
        groups.append([{"cfg": d["cfg"], "colors": LED_COLORS, "layout": hx, "ctrl": "HyperX Alloy Elite 2 (HP)", "walks": whx}])
        # a configuration with a single mapping: the first mapping is also the last one, both mapping keys are at their end
        import copy as _copy
        one_map = _copy.deepcopy(d["cfg"])
        one_map["maps"] = one_map["maps"][:1]
        one_map["dMap"] = 1
        T = lambda k: [{"ev": "press", "k": k}, {"ev": "release", "k": k}]
        w1 = T("KEY_F12") + T("KEY_F11") + [{"ev": "press", "k": "KEY_A"}] + T("KEY_F12") + T("KEY_F2") + [{"ev": "release", "k": "KEY_A"}] \
            + T("KEY_F6") + T("KEY_F11") + [{"ev": "disconnect"}]
        groups.append([{"cfg": one_map, "colors": LED_COLORS, "layout": LED_LAYOUTS[i], "walks": [w1]} for i in (0, 2)])
        # the mapping called "Control" is all white (named deviation in Led!BaseColour): entered and left at run time,
        # as the default mapping and not - directed walks plus a sample of the tour walks on the renamed configuration
        for dmap in (1, 2):
            ctl = _copy.deepcopy(d["cfg"])
            ctl["maps"][1]["name"] = "Control"
            ctl["dMap"] = dmap
            wc = T("KEY_F12") + [{"ev": "press", "k": "KEY_A"}] + T("KEY_F11") + T("KEY_F2") + T("KEY_F12") + [{"ev": "release", "k": "KEY_A"}] \
                + T("KEY_F11") + T("KEY_F12") + T("KEY_F1") + [{"ev": "press", "k": "KEY_D"}, {"ev": "disconnect"}]
            sample = [w for w in d["walks"][dmap::max(1, len(d["walks"]) // 12)]][:12]
            groups.append([{"cfg": ctl, "colors": LED_COLORS, "layout": LED_LAYOUTS[dmap - 1], "walks": [wc] + sample}])
    aborts = []
    def one(g):
        try:
            t, _ = run_led(scr, g)
        except LedAbort as e:
            return None, e
        return t, vlib.validate_trace(scr, "LedTrace", t, xmx="3g")
    with ThreadPoolExecutor(max_workers=14) as ex:
        for t, r in ex.map(one, groups):
            if t is None:
                aborts.append(r)
                continue
            out.add_validation(t, r)
    for e in aborts[:3]:
        # the device (its LED goroutine, its MIDI-input goroutine or its event loop) took the process down
        rp = vlib.write_replay(pid, {"property": pid, "predicate": "X_Crash", "case": {"ev": "abort", "text": e.stderr[:1800], "frames": e.frames()},
                                     "batches": e.batches})
        print("VIOLATION property=%s replay=%s" % (pid, rp))
        print("  the device took the process down while its LED feedback was connected: %s %s" % (e.head(), e.frames()[:2]))
    rc = out.finish(rule="every transition of the bounded model (key events, action taps, MIDI-input notes, disconnect) is replayed on the "
                           "real device with its LED goroutine connected to a fake OpenRGB server; after each step the frame received two "
                           "refresh cycles later is judged by Led!FrameJudgement; three LED layouts",
                      assumptions=["the frame judged after a step is the last one received once two further frames have arrived (the first of "
                                   "them may have been computed before the step)",
                                   "/sys/class/hidraw is provided through a private mount namespace (unshare -m)",
                                   "implementation-defined palettes (channel colours, brightness steps of the action keys) are judged for "
                                   "consistency and distinctness, configured colours within +-2 per channel (HSV round trip)"])
    return 1 if aborts else rc


REGISTRY["C17"] = c17


def parse_race_logs(prefix):
    """Go race detector reports (GORACE log_path=prefix): keep those whose two stacks both contain a HIDI frame
    outside the harness."""
    import glob as _g
    import re as _re
    reports = []
    for p in _g.glob(prefix + "*"):
        with open(p, errors="replace") as f:
            text = f.read()
        for block in text.split("=================="):
            if "WARNING: DATA RACE" not in block:
                continue
            parts = _re.split(r"\n(?=Previous |Goroutine \d+ \()", block)
            acc = [x for x in parts if x.lstrip().startswith(("WARNING", "Previous", "Read at", "Write at"))][:2]
            stacks = _re.split(r"\nPrevious ", block, 1)
            def hidi(s):
                return any("gethiox/HIDI/internal/pkg" in l and "/internal/verif/" not in l for l in s.split("Goroutine")[0].splitlines())
            if len(stacks) == 2 and hidi(stacks[0]) and hidi(stacks[1]):
                fr = [l.strip() for l in block.splitlines() if "gethiox/HIDI/internal/pkg" in l and "()" in l][:6]
                reports.append({"ev": "race", "frames": fr, "text": block.strip()[:1800]})
    return reports


def lifecycle_batches(seed, tier):
    import random
    rng = random.Random(seed * 911 + 2)
    cfg = devdrivers.factory_keyboard_cfg("interrupt")
    cfg["exit"] = []
    notes = ["KEY_Z", "KEY_X", "KEY_C", "KEY_V", "KEY_Q", "KEY_W"]
    layout = ["KEY_ESC", "KEY_F1", "KEY_F2", "KEY_Z", "KEY_X", "KEY_C", "KEY_V", "KEY_Q", "KEY_W", "KEY_F5", "KEY_F6", "other:Logo"]
    def walk(n, held_at_end, midi=True, sleep_before_disc=0, dense=False):
        w, held = [], []
        for _ in range(n):
            r = rng.random()
            if dense:
                # every pair of accesses the Lifecycle model has: panic (resets the MIDI-input tracker) against MIDI
                # input and against the LED cycle, key handling against the LED cycle - none of them paced by frames
                if r < 0.45:
                    w.append({"ev": "midiin", "msg": [rng.choice([0x90, 0x80]) + rng.randrange(16), rng.choice([36, 38, 40, 60]), rng.choice([0, 100])]})
                elif r < 0.7:
                    w += [{"ev": "press", "k": "KEY_ESC"}, {"ev": "release", "k": "KEY_ESC"}]
                elif r < 0.8:
                    k = rng.choice(["KEY_F1", "KEY_F2", "KEY_F5", "KEY_F6"])
                    w += [{"ev": "press", "k": k}, {"ev": "release", "k": k}]
                elif held and r < 0.9:
                    w.append({"ev": "release", "k": held.pop(rng.randrange(len(held)))})
                elif len(held) < 4:
                    k = rng.choice([x for x in notes if x not in held])
                    held.append(k)
                    w.append({"ev": "press", "k": k})
                continue
            if r < 0.35 and len(held) < 4:
                k = rng.choice([x for x in notes if x not in held])
                held.append(k)
                w.append({"ev": "press", "k": k})
            elif r < 0.55 and held:
                k = held.pop(rng.randrange(len(held)))
                w.append({"ev": "release", "k": k})
            elif r < 0.75 and midi:
                w.append({"ev": "midiin", "msg": [rng.choice([0x90, 0x91, 0x80, 0x81]), rng.choice([36, 38, 40]), rng.choice([0, 100])]})
            elif r < 0.85:
                k = rng.choice(["KEY_F1", "KEY_F2", "KEY_F5", "KEY_F6", "KEY_ESC"])
                w += [{"ev": "press", "k": k}, {"ev": "release", "k": k}]
        while len(held) < held_at_end:
            k = rng.choice([x for x in notes if x not in held])
            held.append(k)
            w.append({"ev": "press", "k": k})
        if sleep_before_disc:
            w.append({"ev": "sleep", "raw": sleep_before_disc})
        w.append({"ev": "disconnect"})
        return w
    n = 4 if tier == "quick" else 30
    waited = [{"cfg": cfg, "colors": LED_COLORS, "layout": layout,
               "walks": [walk(rng.randrange(3, 14), rng.choice([0, 1, 3])) for _ in range(n)]} for _ in range(3)]
    # no waiting for frames: disconnect while the LED goroutine is connecting / anywhere in its cycle
    nowait = [{"cfg": cfg, "colors": LED_COLORS, "layout": layout, "nowait": True,
               "walks": [walk(rng.randrange(0, 10), rng.choice([0, 2]), sleep_before_disc=rng.choice([0, 0, 3, 8, 260, 520, 600]))
                         for _ in range(n * 2)]} for _ in range(3)]
    stress = [{"cfg": cfg, "colors": LED_COLORS, "layout": layout, "nowait": True, "async_midi": True,
               "walks": [walk(rng.randrange(30, 80), rng.choice([0, 2]), sleep_before_disc=rng.choice([0, 3, 300]), dense=True)
                         for _ in range(n)]} for _ in range(2)]
    # the server answers but does not list this keyboard: the LED goroutine searches for two seconds; disconnect meanwhile
    search = [{"cfg": cfg, "colors": LED_COLORS, "layout": layout, "nowait": True, "server": mode,
               "walks": [walk(rng.randrange(0, 6), rng.choice([0, 1]), midi=False, sleep_before_disc=ms) for ms in (0, 40, 300, 700)]}
              for mode in ("nocontroller", "other")]
    # MIDI input keeps arriving (buffered channel, as the fan-out provides) across the end of the event stream
    flood = [{"cfg": cfg, "colors": LED_COLORS, "layout": layout, "nowait": True, "async_midi": True, "flood": True,
              "walks": [walk(rng.randrange(2, 12), rng.choice([0, 2]), sleep_before_disc=rng.choice([0, 5, 300])) for _ in range(max(3, n // 2))]}]
    # a slow MIDI port: panic's burst of 129 messages takes longer than an LED refresh cycle, so the LED goroutine asks for
    # the device's locks while panic is still writing (and panic asks for the MIDI-input tracker's lock afterwards)
    def panic_walk(k):
        w = [{"ev": "press", "k": "KEY_Z"}, {"ev": "midiin", "msg": [0x90, 40, 100]}]
        for _ in range(k):
            w += [{"ev": "press", "k": "KEY_ESC"}, {"ev": "release", "k": "KEY_ESC"}, {"ev": "midiin", "msg": [0x91, 38, 90]}]
        return w + [{"ev": "disconnect"}]
    slow = [{"cfg": cfg, "colors": LED_COLORS, "layout": layout, "slow_out_us": us, "walks": [panic_walk(3 if tier == "quick" else 10)]}
            for us in (150, 400)]
    return [[b] for b in waited + nowait + stress + search + flood + slow]


def c16(pid, tier, replay):
    scr = vlib.Scratch(pid)
    out = devcheck.Outcome(pid, tier, ["C16_"])
    cfg = ('SPECIFICATION Spec\nCONSTANTS\n  NEvents = %d\n  NMidi = 2\n  MaxCycles = %d\n  CleanupLocks = {"M"}\n  Unbounded = %s\n'
           'INVARIANTS NoRace NoLeftover LocksReleased\nPROPERTIES Terminates\nCHECK_DEADLOCK FALSE\n')
    for args in [((2, 2) if tier == "quick" else (3, 3)) + ("FALSE",), (1, 1, "TRUE")]:
        res = vlib.run_tlc(scr, "Lifecycle", cfg % args, workers=8, timeout=1200)
        if not res.completed:
            raise Infra("Lifecycle.tla (clean-up under the event mutex, the design in the tree) does not satisfy its properties:\n" + res.tail(40))
        out.add_mc("Lifecycle.tla CleanupLocks={M} NEvents=%d MaxCycles=%d Unbounded=%s" % args, res)
    scr.build(race=True)
    racelog = scr.path("race.log")
    groups = lifecycle_batches(vlib.seed(), tier)
    led_aborts = []
    def one(g):
        try:
            t, _ = run_led(scr, g, tag="life", race=True, extra_env={"GORACE": "halt_on_error=0 log_path=%s" % racelog})
        except LedAbort as e:
            return None, e
        return t, vlib.validate_trace(scr, "LedTrace", t, xmx="3g")
    lat = {"max_return_ms": 0, "max_req_after": 0, "disconnects": 0}
    with ThreadPoolExecutor(max_workers=6) as ex:
        for t, r in ex.map(one, groups):
            if t is None:
                led_aborts.append(r)
                continue
            with open(t) as f:
                for line in f:
                    if '"disconnect"' in line:
                        d = json.loads(line)
                        lat["disconnects"] += 1
                        lat["max_return_ms"] = max(lat["max_return_ms"], d.get("return_ms", 0))
                        lat["max_req_after"] = max(lat["max_req_after"], d.get("req_after", 0))
            out.add_validation(t, r)
    out.notes.append("disconnects: %(disconnects)d, slowest return %(max_return_ms)d ms (bound 2000), most requests to the LED server "
                     "after the end of the stream %(max_req_after)d (bound 50)" % lat)
    # race reports and isolation runs, judged as cases
    extra = casecheck.CaseOutcome(pid, tier, ["C16_"])
    races = parse_race_logs(racelog)
    seen, uniq = set(), []
    for r in races:
        key = tuple(r["frames"][:4])
        if key not in seen:
            seen.add(key)
            uniq.append(r)
    iso_batches = []
    for b in devdrivers.random_keys(vlib.seed(), "quick"):
        for i in range(0, 16 if tier == "quick" else len(b["walks"]), 8):
            iso_batches.append({"cfg": b["cfg"], "cfgmode": "literal", "sub": "", "walks": b["walks"][i:i + 8]})
    # devices that all hold notes when their streams end at the same moment (a configuration reload ends every device at
    # once): the clean-ups run side by side
    if iso_batches:
        import copy as _cp
        b0 = _cp.deepcopy(iso_batches[0])
        best = max(range(len(b0["cfg"]["maps"])), key=lambda i: len(b0["cfg"]["maps"][i]["keys"]))
        b0["cfg"]["dMap"] = best + 1
        nk = sorted(k for k in b0["cfg"]["maps"][best]["keys"] if k not in b0["cfg"]["actions"])[:12]
        held = [[{"ev": "press", "k": nk[(i + j) % len(nk)]} for j in range(3)] + [{"ev": "disconnect"}] for i in range(8)]
        iso_batches.append({"cfg": b0["cfg"], "cfgmode": "literal", "sub": b0.get("sub", ""), "walks": held})
        iso_batches.append({"cfg": b0["cfg"], "cfgmode": "literal", "sub": b0.get("sub", ""), "walks": held[::-1]})
    # devices of one model share one configuration object: eight gamepads on one parsed configuration, each moving axes
    # that take their dead-zone from the handler's default, from the first event on
    import random as _r
    rg = _r.Random(vlib.seed() * 17 + 3)
    axc = devdrivers.base_cfg(dChan=3, maps=[{"name": "M1", "keys": {}, "axes": {
        "ABS_X": devdrivers.axis("cc", cc=1, dzn=1, dzd=10, dzsrc="handler"), "ABS_Y": devdrivers.axis("pitch_bend", dzn=1, dzd=10, dzsrc="handler"),
        "ABS_Z": devdrivers.axis("cc", cc=2, ccNeg=3, bidi=True, dzn=1, dzd=10, dzsrc="handler"),
        "ABS_RX": devdrivers.axis("key", note=60, noteNeg=62, bidi=True, dzn=1, dzd=10, dzsrc="handler")}}],
        axinfo={a: {"min": -128, "max": 127} for a in ("ABS_X", "ABS_Y", "ABS_Z", "ABS_RX")})
    axw = [[{"ev": "axis", "a": rg.choice(["ABS_X", "ABS_Y", "ABS_Z", "ABS_RX"]), "raw": rg.choice([-128, 127, 0, 64, -64, 100])} for _ in range(40)]
           + [{"ev": "disconnect"}] for _ in range(8)]
    iso_batches.append({"cfg": axc, "cfgmode": "literal", "sub": "", "walks": axw})
    # the application's arrangement of the MIDI output: ONE channel of 8 slots for all devices, one reader.  Half of the
    # devices keep it full (panic bursts), the others play a little and end while holding notes: what each device sends
    # (told apart by its MIDI channel) is what it sends when it runs alone on such an output
    skeys = {"KEY_Q": {"n": 60, "o": 0}, "KEY_W": {"n": 62, "o": 0}, "KEY_E": {"n": 64, "o": 0}, "KEY_R": {"n": 65, "o": 0}}
    for mode in (["interrupt"] if tier == "quick" else MODES):
        sc = devdrivers.base_cfg(mode=mode, dChan=rg.randrange(8), actions={"KEY_F6": "channel_up", "KEY_ESC": "panic"},
                                 maps=[{"name": "M1", "keys": skeys, "axes": {}}])
        sw = []
        for i in range(8):
            w = []
            for _ in range(i):
                w += [{"ev": "press", "k": "KEY_F6"}, {"ev": "release", "k": "KEY_F6"}]
            if i % 2 == 0:      # plays, then ends with notes held
                for _ in range(25):
                    k = rg.choice(sorted(skeys))
                    w += [{"ev": "press", "k": k}, {"ev": "release", "k": k}]
                w += [{"ev": "press", "k": k} for k in rg.sample(sorted(skeys), 3)]
            else:               # floods
                for _ in range(12 if tier == "quick" else 30):
                    k = rg.choice(sorted(skeys))
                    w += [{"ev": "press", "k": "KEY_ESC"}, {"ev": "release", "k": "KEY_ESC"}, {"ev": "press", "k": k}, {"ev": "release", "k": k}]
            sw.append(w + [{"ev": "disconnect"}])
        iso_batches.append({"cfg": sc, "cfgmode": "literal", "sub": "", "walks": sw, "shared_out": 8, "slow_us": 100})
    bp = scr.fresh("iso") + ".json"
    with open(bp, "w") as f:
        json.dump(iso_batches, f)
    t2 = scr.fresh("isolation") + ".ndjson"
    ri = subprocess.run([scr.build(race=True), "isolation", bp, t2], stdout=subprocess.PIPE, stderr=subprocess.PIPE, text=True, timeout=1800,
                        env=dict(os.environ, GORACE="halt_on_error=0 log_path=%s" % racelog))
    crash_lines = []
    if ri.returncode not in (0, 66):      # 66 = the race detector's exit code: its reports are in the race log
        # Go aborts the process on unsynchronised map access ("fatal error: concurrent map writes"): with HIDI frames
        # on the stack this is the race itself, observed
        err = ri.stderr
        if ("fatal error: concurrent map" in err or "DATA RACE" in err) and "gethiox/HIDI/internal/pkg/midi" in err:
            fr = [l.strip() for l in err.splitlines() if "gethiox/HIDI/internal/pkg" in l and "/internal/verif/" not in l][:6]
            crash_lines.append({"ev": "race", "frames": fr, "text": err[:1800]})
            open(t2, "w").close()
        else:
            raise Infra("isolation harness failed: " + err[-3000:])
    # a life-cycle scenario that took the process down (unrecovered panic in one of the device's goroutines): the device's
    # processing did not end, it was ended - with every other device of the process
    for e in led_aborts:
        crash_lines.append({"ev": "abort", "frames": e.frames() or ["?"], "text": (e.head() + "\n" + e.stderr)[:1800]})
    seen, uniq = set(), []
    for r in parse_race_logs(racelog) + crash_lines:
        key = tuple(r["frames"][:4])
        if key not in seen:
            seen.add(key)
            uniq.append(r)
    with open(t2, "a") as f:
        for r in uniq:
            f.write(json.dumps(r) + "\n")
    r2 = vlib.validate_trace(scr, "LifecycleHistTrace", t2, xmx="3g")
    extra.add(t2, r2)
    new_extra = [(p, c) for p, c in extra.viol if extra.mine(p)]
    rc = 0
    shown = 0
    for pred, case in new_extra:
        shown += 1
        if shown > 4:
            break
        rp = vlib.write_replay(pid, {"property": pid, "predicate": pred, "case": {k: v for k, v in case.items() if k in ("ev", "frames", "text", "batch", "script", "msg")}})
        print("VIOLATION property=%s replay=%s" % (pid, rp))
        print("  predicate %s: %s" % (pred, (case.get("frames") or case.get("msg") or "output of a device differs when other devices run")))
        rc = 1
    rc2 = out.finish(level="exploration",
                     rule="every life-cycle scenario (keys held, MIDI input arriving, LED goroutine connecting or mid-cycle, disconnect at a "
                          "seeded moment) is one life of the real device under Go's race detector, validated by LedTrace (clean-up output, "
                          "prompt return, no goroutine of package device left, final red frame); race reports and isolation runs are judged "
                          "by LifecycleHist!Judge",
                     assumptions=["data races are found by Go's race detector on the schedules the harness runs, not on all schedules; "
                                  "Lifecycle.tla explores all interleavings of the design",
                                  "'promptly' = ProcessEvents returns within 2 s of its input being closed (measured: about 10 ms)"],
                     extra={"race_reports_with_HIDI_frames": len(uniq), "isolation_runs": extra.classes,
                            "evaluations": out.events + extra.cases,
                            "distinct_nontrivial": out.traces + extra.cases, "exhaustive": False})
    return max(rc, rc2)


REGISTRY["C16"] = c16
