"""Checks of the device engine (C01-C08, C13, C14): exhaustive TLC runs of bounded configurations of
spec/DeviceSys.tla, tours through every transition replayed on the real device.Device, seeded
random drivers under wider bounds, and TLC trace validation of everything the real code did."""
import json
import os
import random
import subprocess
import time
from concurrent.futures import ThreadPoolExecutor

import vlib
from vlib import Infra, log

MAPFIELDS = ("actions", "keys", "axes", "axinfo")


def fix_cfg_json(c):
    """ToJson renders an empty TLA+ function as []; the harness expects {} for map-typed fields."""
    for k in ("actions", "axinfo"):
        if c.get(k) == []:
            c[k] = {}
    for m in c.get("maps", []):
        for k in ("keys", "axes"):
            if m.get(k) == []:
                m[k] = {}
    return c


MC_BASE = """INIT Init
NEXT Next
CHECK_DEADLOCK FALSE
ACTION_CONSTRAINT Dump
"""


def mc_cfg(consts, view, invariants, dump):
    lines = ["CONSTANTS"]
    for k, v in consts.items():
        lines.append("  %s = %s" % (k, vlib.tla_value(v)))
    lines.append("  DumpEdges = %s" % ("TRUE" if dump else "FALSE"))
    lines.append(MC_BASE)
    if invariants:
        lines.append("INVARIANTS " + " ".join(invariants))
    lines.append("VIEW " + view)
    return "\n".join(lines) + "\n"


INVARIANTS = ["NoViolation", "CntConsistent", "TrackedAreHeld", "DoneIsEmpty", "TypeOK"]


def model_check(scr, module, consts, workers, timeout=1500, invariants=INVARIANTS):
    """Exhaustive run with the full view: every predicate as an invariant."""
    res = vlib.run_tlc(scr, module, mc_cfg(consts, "View", invariants, False), workers=workers, timeout=timeout)
    if not res.completed:
        raise Infra("model checking of %s %s failed (a counterexample in the model alone is a defect of the "
                    "specification, not a verdict about the code):\n%s" % (module, consts, res.tail(60)[-6000:]))
    return res


def dump_and_tour(scr, module, consts, workers, cap=2000, maxwalks=0, timeout=1500):
    """Transition dump over the implementation-shaped state, then covering walks."""
    out = scr.fresh("dump") + ".out"
    res = vlib.run_tlc(scr, module, mc_cfg(consts, "ViewSt", [], True), workers=workers, timeout=timeout, outname=out)
    if not res.completed:
        raise Infra("transition dump of %s failed:\n%s" % (module, "\n".join(x[:300] for x in res.tail(40).splitlines() if not x.startswith('"{'))))
    tg = scr.build_tool("tourgen")
    walks = scr.fresh("walks") + ".json"
    r = subprocess.run([tg, "-cap", str(cap), "-maxwalks", str(maxwalks), "-o", walks, out],
                       stdout=subprocess.PIPE, stderr=subprocess.PIPE, text=True)
    os.remove(out)
    if r.returncode != 0:
        raise Infra("tourgen failed: " + r.stderr)
    with open(walks) as f:
        d = json.load(f)
    os.remove(walks)
    d["cfg"] = fix_cfg_json(d["cfg"])
    d["graph_states"], d["graph_transitions"] = res.distinct, res.generated
    return d


def run_harness(scr, batches, tag="dev"):
    """Replay batches [{cfg, cfgmode, toml, sub, walks}] on the real device; returns the trace file."""
    bpath = scr.fresh(tag + "-batches") + ".json"
    tpath = scr.fresh(tag + "-trace") + ".ndjson"
    with open(bpath, "w") as f:
        json.dump(batches, f)
    h = scr.build()
    t0 = time.time()
    r = subprocess.run([h, "device", bpath, tpath], stdout=subprocess.PIPE, stderr=subprocess.PIPE, text=True, timeout=3600)
    if r.returncode != 0:
        raise Infra("device harness failed: " + r.stderr[-3000:])
    os.remove(bpath)
    return tpath, time.time() - t0


def split_walks(walks, n):
    """Split walks into n groups of similar total length."""
    groups = [[] for _ in range(n)]
    sizes = [0] * n
    for w in sorted(walks, key=len, reverse=True):
        i = sizes.index(min(sizes))
        groups[i].append(w)
        sizes[i] += len(w) + 1
    return [g for g in groups if g]


def replay_and_validate(scr, batches, jobs):
    """Run the harness on each batch group and validate the traces with TLC, in parallel.
    Returns list of (tracefile, result)."""
    def one(group):
        t, _ = run_harness(scr, group)
        res = vlib.validate_trace(scr, "DeviceTrace", t, xmx="3g")
        return t, res
    with ThreadPoolExecutor(max_workers=jobs) as ex:
        return list(ex.map(one, batches))


def trace_context(tracefile, lineno):
    """The life (cfg index, events up to lineno) that contains 1-based line lineno."""
    with open(tracefile) as f:
        lines = f.read().splitlines()
    cfgs = json.loads(lines[0])["cfgs"]
    i = lineno - 1
    start = i
    while start > 0 and json.loads(lines[start]).get("ev") != "start":
        start -= 1
    st = json.loads(lines[start])
    events = [json.loads(x) for x in lines[start + 1:i + 1]]
    return cfgs[st["c"] - 1], events


def first_lines(tracefile, n):
    out = []
    with open(tracefile) as f:
        next(f)
        for line in f:
            out.append(json.loads(line))
            if len(out) >= n:
                break
    return out


def count_walks(tracefile):
    n = 0
    with open(tracefile) as f:
        for line in f:
            if line.startswith('{"ev":"start"'):
                n += 1
    return n


class Outcome:
    """Accumulates what a check saw and turns it into verdict lines, evidence and the exit code."""

    def __init__(self, pid, tier, prefixes):
        self.pid, self.tier, self.prefixes = pid, tier, prefixes
        self.t0 = time.time()
        self.viol = []          # (pred, tracefile, line)
        self.drift = []
        self.branches = {}
        self.events = 0
        self.traces = 0
        self.states = 0
        self.transitions = 0
        self.graph_states = 0
        self.graph_transitions = 0
        self.uncovered = 0
        self.samples = []
        self.notes = []
        self.mc_runs = []

    def add_mc(self, name, res):
        self.states += res.distinct
        self.transitions += res.generated
        self.mc_runs.append({"config": name, "distinct_states": res.distinct, "transitions": res.generated,
                             "depth": res.depth, "wall_s": round(res.wall, 1)})

    def add_tour(self, name, d):
        self.graph_states += d["graph_states"]
        self.graph_transitions += d["stats"]["edges"]
        self.uncovered += d["stats"]["uncovered"]
        self.notes.append("%s: tour graph %d states, %d transitions, %d walks, %d events, %d transitions left uncovered"
                          % (name, d["stats"]["nodes"], d["stats"]["edges"], d["stats"]["walks"], d["stats"]["events"],
                             d["stats"]["uncovered"]))

    def add_validation(self, tracefile, res):
        self.events += res["lines"] - 1
        self.traces += count_walks(tracefile)
        per = {}
        for name, line in sorted(res["viol"], key=lambda x: x[1]):
            per[name] = per.get(name, 0) + 1
            if per[name] <= 25 and self.mine(name):     # contexts are captured now, the trace file may be removed
                cfg, events = trace_context(tracefile, line)
                self.viol.append((name, cfg, events))
            else:
                self.viol.append((name, None, None))
        for line, kind in res["drift"]:
            self.drift.append((tracefile, line, kind))
        for b, n in res["branches"].items():
            self.branches[b] = self.branches.get(b, 0) + n
        if len(self.samples) < 3:
            self.samples.append(first_lines(tracefile, 8))

    def mine(self, pred):
        return pred.startswith("X_") or any(pred.startswith(p) for p in self.prefixes)

    def finish(self, level="model_checking", rule="", assumptions=(), extra=None):
        known = [k for k in vlib.load_known() if k.get("property") == self.pid and k.get("status", "open") == "open"]
        new, kn = [], {}
        for pred, cfg, events in self.viol:
            if not self.mine(pred) or cfg is None:
                continue
            hit = None
            for k in known:
                if k.get("predicate") == pred and match_scenario(k.get("scenario", {}), cfg, events):
                    hit = k
                    break
            if hit:
                kn.setdefault(hit["id"], [hit, 0])[1] += 1
            else:
                new.append((pred, cfg, events))
        for kid, (k, n) in kn.items():
            print("KNOWN-FINDING: property=%s %s (%d occurrences in this run)" % (self.pid, k["text"], n))
        shown = {}
        for pred, cfg, events in sorted(new, key=lambda x: len(x[2])):
            shown[pred] = shown.get(pred, 0) + 1
            if shown[pred] > 3:
                continue
            rp = vlib.write_replay(self.pid, {"property": self.pid, "predicate": pred, "cfg": cfg, "cfgmode": "literal",
                                               "events": events})
            print("VIOLATION property=%s replay=%s" % (self.pid, rp))
            print("  predicate %s false at the last of %d events: %s" % (pred, len(events), json.dumps(events[-1] if events else "(at the start of the life)")[:300]))
        for tf, line, kind in self.drift[:5]:
            print("DRIFT property=%s step=%d kind=%s (output differs from the model's exact prediction; not a verdict)"
                  % (self.pid, line, kind))
        cov = {
            "states": self.states, "transitions": self.transitions,
            "traces_validated_against_impl": self.traces,
            "evaluations": self.events,
            "distinct_nontrivial": self.graph_transitions,
            "rule": rule or ("every transition (implementation-shaped state, input) of the bounded models is replayed on the "
                             "real device.Device; distinct_nontrivial = number of distinct such transitions covered; "
                             "evaluations = events executed on the real code and validated by TLC"),
            "samples": self.samples or [["none"]],
            "exhaustive": self.uncovered == 0,
            "mc_runs": self.mc_runs,
            "tour_transitions_uncovered": self.uncovered,
            "branch_counts_in_validated_traces": self.branches,
            "drift_steps": len(self.drift),
            "predicates_judged": sorted(self.prefixes),
            "notes": self.notes,
        }
        if extra:
            cov.update(extra)
        vlib.write_evidence(self.pid, self.tier, vlib.seed(), level, cov, time.time() - self.t0,
                            violations=len(new), assumptions=assumptions)
        return 1 if new else 0


def match_scenario(sc, cfg, events):
    """A known finding names a structured scenario; only violations inside it are suppressed."""
    last = events[-1] if events else {}
    for k, v in sc.items():
        if k == "last_ev" and last.get("ev") != v:
            return False
        if k == "mode" and cfg.get("mode") != v:
            return False
        if k == "axis_type":
            a = last.get("a")
            ok = any(a in m.get("axes", {}) and m["axes"][a].get("type") == v for m in cfg.get("maps", []))
            if not ok:
                return False
    return True
