module tourgen

go 1.18
