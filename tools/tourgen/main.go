// Command tourgen turns the transition dump of a TLC run (one JSON line per transition, printed
// by the ACTION_CONSTRAINT "Dump" of the MC_* modules) into walks through the state graph of the
// implementation-shaped state that together cover every transition at least once.  A walk is one
// life of one real device: it starts in the initial state and is replayed by the harness.
package main

import (
	"bufio"
	"encoding/json"
	"flag"
	"fmt"
	"os"
	"strconv"
	"strings"
)

type edgeLine struct {
	F    string          `json:"f"`
	I    json.RawMessage `json:"i"`
	T    string          `json:"t"`
	D    bool            `json:"d"`
	Init string          `json:"init"`
	Cfg  json.RawMessage `json:"cfg"`
}

type edge struct {
	in      int // index into inputs
	to      int
	term    bool
	covered bool
}

func main() {
	capSteps := flag.Int("cap", 2000, "maximum number of steps of one walk")
	maxWalks := flag.Int("maxwalks", 0, "stop after this many walks (0 = cover everything)")
	outPath := flag.String("o", "walks.json", "output file")
	flag.Parse()
	if flag.NArg() != 1 {
		fmt.Fprintln(os.Stderr, "usage: tourgen [-cap n] -o walks.json tlc-output.txt")
		os.Exit(2)
	}
	f, err := os.Open(flag.Arg(0))
	if err != nil {
		fmt.Fprintln(os.Stderr, err)
		os.Exit(2)
	}
	defer f.Close()
	sc := bufio.NewScanner(f)
	sc.Buffer(make([]byte, 1<<20), 1<<26)

	nodes := map[string]int{}
	var adj [][]edge
	node := func(s string) int {
		if id, ok := nodes[s]; ok {
			return id
		}
		id := len(adj)
		nodes[s] = id
		adj = append(adj, nil)
		return id
	}
	inputs := map[string]int{}
	var inputList []json.RawMessage
	seen := map[[2]int]bool{} // (from, input)
	var cfg json.RawMessage
	initNode := -1
	nEdges := 0
	for sc.Scan() {
		line := sc.Text()
		if !strings.HasPrefix(line, "\"{") {
			continue
		}
		un, err := strconv.Unquote(line)
		if err != nil {
			fmt.Fprintln(os.Stderr, "tourgen: cannot unquote line:", err)
			os.Exit(2)
		}
		var e edgeLine
		if err := json.Unmarshal([]byte(un), &e); err != nil {
			fmt.Fprintln(os.Stderr, "tourgen: bad json:", err)
			os.Exit(2)
		}
		if e.Init != "" {
			cfg = e.Cfg
			continue
		}
		from, to := node(e.F), node(e.T)
		if initNode < 0 {
			// TLC's breadth-first search expands the initial state first.  (ToString of a record is
			// not canonical across evaluation contexts, so the init line's text is not used.)
			initNode = from
		}
		ik := string(e.I)
		ii, ok := inputs[ik]
		if !ok {
			ii = len(inputList)
			inputs[ik] = ii
			inputList = append(inputList, e.I)
		}
		if seen[[2]int{from, ii}] {
			continue
		}
		seen[[2]int{from, ii}] = true
		adj[from] = append(adj[from], edge{in: ii, to: to, term: e.D})
		nEdges++
	}
	if initNode < 0 {
		fmt.Fprintln(os.Stderr, "tourgen: no init line in the dump")
		os.Exit(2)
	}

	// expand an input into the events it stands for
	type ev = json.RawMessage
	expand := func(ii int) []ev {
		var m map[string]interface{}
		json.Unmarshal(inputList[ii], &m)
		if m["ev"] == "tap" {
			p, _ := json.Marshal(map[string]interface{}{"ev": "press", "k": m["k"]})
			r, _ := json.Marshal(map[string]interface{}{"ev": "release", "k": m["k"]})
			return []ev{p, r}
		}
		return []ev{inputList[ii]}
	}

	uncovered := make([]int, len(adj)) // uncovered non-terminal out-edges per node
	uncTerm := make([]int, len(adj))
	total := 0
	for n := range adj {
		for _, e := range adj[n] {
			if e.term {
				uncTerm[n]++
			} else {
				uncovered[n]++
			}
			total++
		}
	}
	remaining := total

	prev := make([]int, len(adj))
	prevEdge := make([]int, len(adj))
	mark := make([]int, len(adj))
	stamp := 0
	// bfs returns the path (edge indices per node) from src to the nearest node with an uncovered edge
	bfs := func(src int, wantTerm bool) (int, bool) {
		stamp++
		queue := []int{src}
		mark[src] = stamp
		prev[src] = -1
		for len(queue) > 0 {
			n := queue[0]
			queue = queue[1:]
			if n != src && (uncovered[n] > 0 || (wantTerm && uncTerm[n] > 0)) {
				return n, true
			}
			for ei, e := range adj[n] {
				if e.term || mark[e.to] == stamp {
					continue
				}
				mark[e.to] = stamp
				prev[e.to] = n
				prevEdge[e.to] = ei
				queue = append(queue, e.to)
			}
		}
		return -1, false
	}
	pathTo := func(src, dst int) [][2]int {
		var rev [][2]int
		for n := dst; n != src; n = prev[n] {
			rev = append(rev, [2]int{prev[n], prevEdge[n]})
		}
		for i, j := 0, len(rev)-1; i < j; i, j = i+1, j-1 {
			rev[i], rev[j] = rev[j], rev[i]
		}
		return rev
	}

	var walks [][]ev
	steps := 0
	for remaining > 0 {
		if *maxWalks > 0 && len(walks) >= *maxWalks {
			break
		}
		cur := initNode
		var walk []ev
		n := 0
		take := func(from, ei int) {
			e := &adj[from][ei]
			if !e.covered {
				e.covered = true
				remaining--
				if e.term {
					uncTerm[from]--
				} else {
					uncovered[from]--
				}
			}
			walk = append(walk, expand(e.in)...)
			n++
			cur = e.to
		}
		progressed := false
		for n < *capSteps {
			if uncovered[cur] > 0 {
				for ei := range adj[cur] {
					if !adj[cur][ei].covered && !adj[cur][ei].term {
						take(cur, ei)
						progressed = true
						break
					}
				}
				continue
			}
			dst, ok := bfs(cur, false)
			if !ok {
				break
			}
			for _, pe := range pathTo(cur, dst) {
				take(pe[0], pe[1])
			}
		}
		// end the life with a disconnect that has not been exercised yet
		if uncTerm[cur] == 0 && !progressed {
			// nothing but terminal edges are left: go to the nearest node that still has one
			dst, ok := bfs(cur, true)
			if ok {
				for _, pe := range pathTo(cur, dst) {
					take(pe[0], pe[1])
				}
			}
		}
		if uncTerm[cur] > 0 {
			for ei := range adj[cur] {
				if adj[cur][ei].term && !adj[cur][ei].covered {
					take(cur, ei)
					break
				}
			}
		} else if !progressed {
			break // unreachable remainder (cannot happen for a graph explored from init)
		}
		walks = append(walks, walk)
		steps += len(walk)
	}

	out := map[string]interface{}{"cfg": cfg, "walks": walks,
		"stats": map[string]int{"nodes": len(adj), "edges": total, "uncovered": remaining, "walks": len(walks), "events": steps}}
	b, _ := json.Marshal(out)
	if err := os.WriteFile(*outPath, b, 0o644); err != nil {
		fmt.Fprintln(os.Stderr, err)
		os.Exit(2)
	}
	fmt.Fprintf(os.Stderr, "tourgen: nodes=%d edges=%d uncovered=%d walks=%d events=%d\n", len(adj), total, remaining, len(walks), steps)
}
