#!/usr/bin/env python3
"""Runs the repository's test suite with the verif guard OFF and compares with /root/.vp/BASELINE.json."""
import json, os, subprocess, sys
env = dict(os.environ, GOFLAGS="-mod=mod", GOPROXY="off", GOSUMDB="off", GOTOOLCHAIN="local")
r = subprocess.run(["go", "test", "-json", "-vet=off", "-count=1", "-timeout", "25m", "./..."], cwd="/repo", env=env,
                   stdout=subprocess.PIPE, stderr=subprocess.DEVNULL, text=True)
passed = set()
for line in r.stdout.splitlines():
    try:
        e = json.loads(line)
    except ValueError:
        continue
    if e.get("Action") == "pass" and e.get("Test"):
        passed.add("%s::%s" % (e["Package"], e["Test"]))
base = set(json.load(open("/root/.vp/BASELINE.json"))["stable_pass"])
missing = sorted(base - passed)
print("baseline stable_pass: %d, passing now: %d, missing: %d" % (len(base), len(base & passed), len(missing)))
for m in missing[:20]:
    print("  MISSING", m)
sys.exit(1 if missing else 0)
