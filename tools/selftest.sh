#!/bin/sh
# usage: tools/selftest.sh <patch.diff> <check id>...   applies a patch to /repo, runs the quick checks, undoes it
P=$(readlink -f "$1"); shift
cd /verif
git -C /repo apply "$P" || { echo "patch does not apply"; exit 2; }
for c in "$@"; do
  ./check "$c" quick > /tmp/selftest.$c.out 2>&1; rc=$?
  echo "$c rc=$rc $(grep -c '^VIOLATION' /tmp/selftest.$c.out) violation lines; $(grep -m1 '^  predicate' /tmp/selftest.$c.out | cut -c1-160)"
done
git -C /repo checkout -- . && git -C /repo status --short | head -3
