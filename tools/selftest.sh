#!/bin/sh
# usage: tools/selftest.sh <patch.diff> <check id>...
# Applies a seeded change to a PRIVATE clone of /repo (never to /repo itself, so that other runs are not
# disturbed), runs the quick checks against it through VERIF_REPO, removes the clone.
P=$(readlink -f "$1"); shift
cd /verif
T=$(mktemp -d /var/tmp/hidi-selftest.XXXXXX)
trap 'rm -rf "$T"' EXIT
rsync -a --exclude .git /repo/ "$T/repo/"
(cd "$T/repo" && patch -p1 -s < "$P") || { echo "patch does not apply"; exit 2; }
for c in "$@"; do
  VERIF_REPO="$T/repo" ./check "$c" quick > "$T/$c.out" 2>&1; rc=$?
  echo "$c rc=$rc $(grep -c '^VIOLATION' "$T/$c.out") violation lines; $(grep -m1 '^  predicate' "$T/$c.out" | cut -c1-170)"
  [ $rc -eq 2 ] && tail -5 "$T/$c.out"
done
