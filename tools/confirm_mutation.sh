#!/bin/bash
# env: DEMOFLAGS (e.g. -race) for the demo runs, STUB=<pure-Go alsa.go> for demos in cmd/hidi
# usage: confirm_mutation.sh <worktree> <id> <property>   -- confirms an agent's mutation and stores it under /verif/seeded/<id>
WT=$1; ID=$2; PROP=$3
export GOFLAGS=-mod=mod GOPROXY=off GOSUMDB=off GOTOOLCHAIN=local
cd $WT || exit 2
DEMO=$(git status --short | grep '^??' | grep '_test.go' | awk '{print $2}' | head -1)
[ -f mutation.diff ] || { echo "no mutation.diff"; exit 2; }
PKG=./$(dirname $DEMO)
# state: mutation applied + demo present
git diff --quiet && git apply mutation.diff
go build ./internal/... ./cmd/hidi/openrgb/... 2>&1 | grep -v alsa | head -3
mv $DEMO /tmp/demo_$ID.go.txt
WITH=$(go test -vet=off -count=1 -json ./internal/... 2>/dev/null | python3 -c "
import sys,json
p=set()
for l in sys.stdin:
    try: e=json.loads(l)
    except: continue
    if e.get('Action')=='pass' and e.get('Test'): p.add(e['Package']+'::'+e['Test'])
base=set(json.load(open('/root/.vp/BASELINE.json'))['stable_pass'])
print(len(base-p))")
cp /tmp/demo_$ID.go.txt $DEMO
[ -n "$STUB" ] && cp $STUB internal/pkg/midi/driver/alsa/alsa.go
go test $DEMOFLAGS -vet=off -count=1 -run "${DEMORUN:-Demo}" $PKG > /tmp/demo_with_$ID.log 2>&1; RC_WITH=$?
git apply -R mutation.diff
go test $DEMOFLAGS -vet=off -count=1 -run "${DEMORUN:-Demo}" $PKG > /tmp/demo_without_$ID.log 2>&1; RC_WITHOUT=$?
[ -n "$STUB" ] && git checkout internal/pkg/midi/driver/alsa/alsa.go
git apply mutation.diff
echo "$ID: baseline tests missing with mutation=$WITH  demo rc with=$RC_WITH without=$RC_WITHOUT  (demo: $DEMO)"
if [ "$WITH" = "0" ] && [ $RC_WITH -ne 0 ] && [ $RC_WITHOUT -eq 0 ]; then
  mkdir -p /verif/seeded/$ID
  cp mutation.diff /verif/seeded/$ID/patch.diff
  cp $DEMO /verif/seeded/$ID/$(basename $DEMO).txt
  echo "$DEMO" > /verif/seeded/$ID/demo_path.txt
  echo CONFIRMED
else
  echo NOT-CONFIRMED; tail -5 /tmp/demo_with_$ID.log
fi
