#!/bin/bash
# usage: sweep.sh <tier> <parallel> <outdir> <seed>...   -- every check, each seed, <parallel> at a time, on a private clone of /repo
# (the clone keeps a sweep independent of patches being tried on /repo); prints one line per run: id seed rc seconds
TIER=$1; PAR=$2; OUT=$3; shift 3
mkdir -p $OUT
CLONE=$(mktemp -d /var/tmp/sweep-repo.XXXXXX)
rsync -a --exclude .git /repo/ $CLONE/
export VERIF_REPO=$CLONE
for s in "$@"; do
  for i in 01 02 03 04 05 06 07 08 09 10 11 12 13 14 15 16 17 18 19 20; do
    echo "C$i $s"
  done
done | xargs -P $PAR -L 1 bash -c 'id=$0; s=$1; t0=$(date +%s); VERIF_SEED=$s /verif/check $id '$TIER' > '$OUT'/$id.$s.log 2>&1; rc=$?; echo "$id seed=$s rc=$rc $(( $(date +%s) - t0 ))s viol=$(grep -c ^VIOLATION '$OUT'/$id.$s.log)"'
rm -rf $CLONE
