#!/bin/bash
# usage: sweep.sh <tier> <parallel> <outdir> <seed>...   -- every check, each seed, <parallel> at a time, on a private clone of /repo
# env IDS="C09 C10" restricts the checks
# (the clone keeps a sweep independent of patches being tried on /repo); prints one line per run: id seed rc seconds
TIER=$1; PAR=$2; OUT=$3; shift 3
mkdir -p $OUT
CLONE=$(mktemp -d /var/tmp/sweep-repo.XXXXXX)
rsync -a --exclude .git /repo/ $CLONE/
export VERIF_REPO=$CLONE
for s in "$@"; do
  for id in ${IDS:-C01 C02 C03 C04 C05 C06 C07 C08 C09 C10 C11 C12 C13 C14 C15 C16 C17 C18 C19 C20}; do
    echo "$id $s"
  done
done | xargs -P $PAR -L 1 bash -c 'id=$0; s=$1; t0=$(date +%s); VERIF_SEED=$s /verif/check $id '$TIER' > '$OUT'/$id.$s.log 2>&1; rc=$?; echo "$id seed=$s rc=$rc $(( $(date +%s) - t0 ))s viol=$(grep -c ^VIOLATION '$OUT'/$id.$s.log)"'
rm -rf $CLONE
