#!/usr/bin/env python3
"""Regenerates /verif/MANIFEST.json from the table below (single place to keep it valid)."""
import json
import os

VERIF = os.path.dirname(os.path.dirname(os.path.abspath(__file__)))

DEV_TECH = ("TLA+ spec (spec/Device.tla, DeviceSys.tla) model-checked exhaustively with TLC on bounded configurations; "
            "tours covering every transition of the bounded model replayed on the real device.Device; seeded random "
            "histories; all recorded executions validated by TLC against spec/DeviceTrace.tla")
DEV_NOTE = ("trusted: TLC, the sentinel stepping of the harness (one event, then EV_SYN, then drain), the receiver "
            "model (set of sounding <<channel, pitch>>). Bounded: TLC exhausts small configurations; beyond them the "
            "seeded drivers sample. Verdicts come only from bytes the real code emitted.")

CHECKS = {
    "C01": ("model_checking", "DESIGN.md 5/C01", DEV_TECH, DEV_NOTE,
            "Quiescence and disconnect silence are predicates of the spec evaluated by TLC at every step of every "
            "recorded execution of the real engine; the executions include a tour through every (state, input) "
            "transition of the bounded models in all four collision modes with disconnect from every state."),
    "C02": ("model_checking", "DESIGN.md 5/C02", DEV_TECH, DEV_NOTE,
            "ReleasePinned / StateActionsSilent judged by TLC on every step of tours that contain every pairing of "
            "(state at press, state at release) of the bounded model, incl. mapping switches to unmapped/re-mapped keys."),
    "C03": ("model_checking", "DESIGN.md 5/C03", DEV_TECH, DEV_NOTE,
            "Per-step emission rule of each collision mode judged by TLC on tours over all press/release orders of "
            "four colliding keys (direct, by octave, by channel offset) plus a bystander."),
    "C04": ("model_checking", "DESIGN.md 5/C04", DEV_TECH, DEV_NOTE,
            "Pitch/channel arithmetic, unit steps, saturation, pair reset and defaults judged by TLC on tours over "
            "base notes x octaves -12..12 x semitones -13..13, channels x offsets, and all orders of held action pairs."),
    "C05": ("model_checking", "DESIGN.md 5/C05", DEV_TECH + "; configurations rendered as TOML and parsed by the real config.ParseData",
            DEV_NOTE, "WellFormed is evaluated by TLC on the raw bytes of every step of every recorded execution: key tours, "
            "boundary configurations (default channel, velocity, offsets, controller numbers at and beyond their ranges; "
            "those the parser accepts are run with panic on channel 1 and 16 and axis sweeps), axis sweeps of C06-C08."),
    "C06": ("model_checking", "DESIGN.md 5/C06", DEV_TECH + "; exact rational transfer function in TLA+ (integers only) as the oracle for complete sweeps of 8-bit axes",
            DEV_NOTE + " Float rounding of the implementation is judged only through the +-1 tolerance; exactness only at end stops, dead-zone and centre.",
            "The transfer function is specified in exact rational arithmetic; TLC judges every raw value of signed and unsigned "
            "8-bit axes (up, down, random order) and edge/sampled values of 16-bit axes over the option lattice "
            "(dead-zone x source x flip x centre x cc/bidirectional/pitch) against it: within one step, end stops exact, rest exact, monotone."),
    "C07": ("model_checking", "DESIGN.md 5/C07", DEV_TECH, DEV_NOTE,
            "Exclusive / SideMatches / LearningGate judged by TLC on tours over all position sequences of two small bidirectional "
            "axes with cc-learning pressed/released anywhere, and on seeded random sequences on 8/16-bit axes."),
    "C08": ("model_checking", "DESIGN.md 5/C08", DEV_TECH + "; configurations rendered as TOML and parsed by the real config.ParseData",
            DEV_NOTE, "On/Off/Exclusive/OnlyConfigured/Pinned judged by TLC on tours over all position sequences of hat and stick "
            "axes (signed, unsigned, flipped, without negative note) with octave/channel actions between, and seeded random sequences."),
    "C09": ("model_checking", "DESIGN.md 5/C09",
            "TLA+ spec of the outcome relation (spec/ConfigFile.tla: Total); structured TOML texts (optional-field lattice, ill-typed "
            "values, absent sections, spellings), seeded byte-level mutations of shipped and rendered files and hidi.toml variants are "
            "parsed by the real ParseData / LoadHIDIConfig under a panic guard and watchdog; outcomes judged by TLC (spec/CaseTrace.tla)",
            "the spec is a thin oracle here (outcome in {config, error}); the exploring is done by the structured enumeration and the mutation "
            "driver; arbitrary byte strings are sampled, not exhausted",
            "Totality of parsing: every generated input must yield a configuration or an error, never a panic or a hang."),
    "C10": ("model_checking", "DESIGN.md 5/C10",
            "TLA+ spec of the meaning of a configuration description and of what must be rejected (spec/ConfigFile.tla: Meaning, "
            "MustReject); descriptions rendered to TOML in three spellings, parsed by the real ParseData, the returned Config "
            "projected and compared by TLC (spec/CaseTrace.tla)",
            "trusted: TLC, the renderer lib/cfggen.py. Acceptance of a valid description is not demanded (statement is conditional); "
            "accepted valid cases are counted so the faithful branch is not vacuous",
            "Faithful (per area: keys, analog, actions, exit, mode, defaults, colours, dead-zones, identifier), InRange and Rejects (per "
            "reason) judged on seeded structured descriptions and every single-field invalidation of each."),
    "C11": ("model_checking", "DESIGN.md 5/C11",
            "TLA+ spec of the name<->number bijection (spec/NoteNames.tla, model-level ASSUMEs checked by TLC); the real StringToNote is "
            "run on every string of the exhaustive space and the logged cases are judged by TLC (spec/CaseTrace.tla)",
            "trusted: TLC; strings the code rejects and that are not valid spellings are only counted (rejection is the specified result)",
            "Exhaustive over all strings of length <= 3 (quick) / <= 4 (thorough) over letters, digits, #, -, space, plus seeded longer strings and edits of valid names; all 128 numbers."),
    "C12": ("model_checking", "DESIGN.md 5/C12",
            "TLA+ spec of the lookup chain (spec/Loader.tla); hidi-config trees built on disk for every presence combination, the real "
            "LoadDeviceConfigs + FindConfig run in them, results judged by TLC (spec/CaseTrace.tla)",
            "trusted: TLC, the marker (defaults.octave) identifying the chosen file. Unreadable directories cannot be produced as root.",
            "quick: all 256 presence combinations x 4 device types + seeded junk/missing-directory cases; thorough: full product with 6 junk kinds and 7 missing-directory sets (43k trees)."),
    "C15": ("model_checking", "DESIGN.md 5/C15",
            "TLA+ spec of the fan-out (spec/FanOut.tla: runner, spawn, despawn, consumers, drain; both the single-mutex design found and "
            "the two-mutex design in the tree) model-checked exhaustively by TLC incl. liveness under the fairness the code provides; "
            "operation histories of the real DynamicFanOut and relay recorded by an orchestrator and judged by TLC (spec/FanOutHist.tla)",
            "trusted: TLC; logical call/return order logged by the orchestrator; 'never completes' = not returned 2 s after the scenario "
            "(goroutine dump attached). Lock acquisitions and individual sends are unlogged internal steps.",
            "Design: all interleavings of runner, 2-3 consumers (reading / stopped), spawn and despawn at every point, 2-4 messages, "
            "capacity 1: order, exactly-once, no send on closed channel, delivered-while-connected, despawn completes. Code: the TLC "
            "lasso forced on the real fan-out in several shapes, seeded random life-cycle histories, relay with concurrent emitters."),
    "C16": ("exploration", "DESIGN.md 5/C16",
            "TLA+ spec of the three goroutines of a device with their mutexes, context and WaitGroup, every shared access as a "
            "begin/end pair (spec/Lifecycle.tla) model-checked by TLC for NoRace (lockset), NoLeftover, Terminates over all "
            "interleavings; life-cycle scenarios run on the real device (LED goroutine against a fake OpenRGB server, MIDI input) built "
            "with Go's race detector, traces validated by TLC (spec/LedTrace.tla), race reports and isolation runs judged by "
            "spec/LifecycleHist.tla",
            "exploration: the race detector is a dynamic analysis of the schedules that were run; the TLA+ lockset invariant finds races in "
            "the design and is bound to the code only through those runs. 'promptly' = 2 s (measured 10 ms).",
            "Disconnect with keys held / MIDI input arriving / LED connecting or mid-cycle at seeded moments; 8 devices concurrently vs alone."),
    "C17": ("model_checking", "DESIGN.md 5/C17",
            "TLA+ spec of the frame as a function of playing state, note tracker, MIDI-input tracker and LED layout (spec/Led.tla on top "
            "of DeviceSys); TLC enumerates the bounded model (MC_led), tours over every transition are replayed on the real device whose "
            "LED goroutine talks to a fake OpenRGB server, every received frame is judged by TLC (spec/LedTrace.tla)",
            "trusted: TLC, the fake OpenRGB server, the two-frames-later rule for attributing a frame to a step; palettes that the "
            "statement leaves to the implementation are judged for consistency/distinctness only; the mapping literally named Control "
            "(always white) is a named deviation and not used",
            "All reachable combinations of octave/channel/mapping, held key, MIDI-input notes on two channels (Note Off, velocity 0, panic "
            "clearing) of the bounded model x three LED layouts (factory order, reversed, sparse with an action key at index 0), final red frame."),
    "C18": ("model_checking", "DESIGN.md 5/C18",
            "TLA+ spec of the upkeep walk with one action per file-system mutation and a crash action (spec/Upkeep.tla) model-checked "
            "exhaustively by TLC; the real updateHIDIConfiguration run under strace on prepared trees with SIGKILL injected at "
            "file-system calls, mutation lists and tree snapshots judged by TLC (spec/UpkeepHist.tla)",
            "trusted: TLC, strace (mutation log, fault injection), the content classifier of lib/upkeep.py; type confusion "
            "(file vs directory), symlinks and permission errors are outside the quantifier",
            "Design: every combination of file states (absent, intact, empty, truncated, modified, longer) and missing directories, crash "
            "after every mutation, repeated runs: user files untouched, factory restored, blacklist only created, idempotent. Code: the same "
            "judged on real runs over systematic and seeded trees with crash points."),
    "C19": ("exploration", "DESIGN.md 5/C19",
            "TLA+ spec of the watcher pipeline (spec/Watcher.tla: kernel queue with coalescing, filter, unbuffered hand-off, cancel) "
            "model-checked by TLC incl. liveness; the real DetectDeviceConfigChanges run on scenario-driven write sequences, counts and "
            "stream end judged by TLC (spec/WatcherHist.tla)",
            "exploration with a model: kernel notification timing is outside the model; bounds: 150 ms to look for a notification that "
            "should not exist, 10 s for a missing one / a stream that does not end",
            "Scenarios: isolated writes and bursts on TOML / non-TOML files in the four directories, prompt and late consumer, cancellation "
            "at arbitrary points."),
    "C20": ("model_checking", "DESIGN.md 5/C20",
            "TLA+ spec of grouping and type rule (spec/Discovery.tla); the real input.Normalize run on every sequence of synthetic "
            "handlers (every multiset in every order), each call judged by TLC (spec/CaseTrace.tla)",
            "trusted: TLC; handler classes are taken as the code reports them (the statement does not define joystick-like)",
            "Exhaustive for <= 3 (quick) / <= 4 (thorough) handlers over 9 capability classes x 3 locations in every order; seeded multisets of up to 12 handlers in 3 orders."),
    "C13": ("model_checking", "DESIGN.md 5/C13", DEV_TECH, DEV_NOTE,
            "Panic output and neutrality judged by TLC with panic taken in every state of the bounded models."),
    "C14": ("model_checking", "DESIGN.md 5/C14", DEV_TECH, DEV_NOTE,
            "ExitFires / NeverEarly judged by TLC on tours over all press/release orders with exit sequences of length 0-3 "
            "whose members are a note key, the panic key and an unmapped key."),
}

NA_REASON = "check under construction in this round (not yet claimed)"


def main():
    ids = [json.loads(l)["id"] for l in open(os.path.join(VERIF, "properties.jsonl"))]
    man = {
        "version": 1,
        "setup_cmd": "./setup.sh",
        "hooks": {
            "guard": "verif",
            "enable": "each check rsyncs /repo's working tree to a scratch directory, copies /verif/harness/** (all files "
                      "tagged //go:build verif) into that copy and builds it with `go build -tags verif`; /repo itself "
                      "carries no hook",
            "baseline_off_cmd": "cd /repo && GOFLAGS=-mod=mod GOPROXY=off GOSUMDB=off go test -json -vet=off -count=1 -timeout 25m ./...",
            "source_commits": [],
            "add_only": True,
        },
        "engines": [
            {"name": "device-engine", "path": "spec/Device.tla spec/DeviceSys.tla spec/DeviceTrace.tla spec/MC_device.tla",
             "serves_properties": [i for i in ids if i in CHECKS and i in ("C01", "C02", "C03", "C04", "C05", "C06", "C07", "C08", "C13", "C14", "C16", "C17")],
             "kind_free_text": "TLC exhaustive model checking + tours + trace validation of the per-device engine"},
            {"name": "case-oracle", "path": "spec/CaseTrace.tla spec/NoteNames.tla spec/Loader.tla spec/Discovery.tla spec/ConfigFile.tla",
             "serves_properties": [i for i in ids if i in CHECKS and i in ("C09", "C10", "C11", "C12", "C15", "C18", "C19", "C20")],
             "kind_free_text": "specification as enumerated oracle: the real function is run on generated cases, TLC judges every logged case"},
        ],
        "checks": [],
        "not_applicable": [],
        "notes": "See DESIGN.md. Exit codes: 0 held, 1 VIOLATION line printed, 2 infrastructure failure (never a verdict).",
    }
    for i in ids:
        if i in CHECKS:
            level, ref, tech, note, text = CHECKS[i]
            man["checks"].append({
                "property_id": i,
                "quick_cmd": "./check %s quick" % i,
                "thorough_cmd": "./check %s thorough" % i,
                "evidence_file": "evidence/%s.json" % i,
                "replay_cmd_template": "./check %s --replay {path}" % i,
                "engine": "device-engine" if i in ("C01", "C02", "C03", "C04", "C05", "C06", "C07", "C08", "C13", "C14", "C16", "C17") else "case-oracle",
                "level_claimed": {"category": level, "text": text, "design_ref": ref},
                "level_note": note,
                "technique": tech,
            })
        else:
            man["not_applicable"].append({"property_id": i, "reason": NA_REASON})
    with open(os.path.join(VERIF, "MANIFEST.json"), "w") as f:
        json.dump(man, f, indent=1)


if __name__ == "__main__":
    main()
