----------------------------- MODULE LoaderTrace -----------------------------
(* C12 trace validation: cases recorded by `verifh loader` *)
EXTENDS Loader
CONSTANT TraceFile
Trace == ndJsonDeserialize(TraceFile)
VARIABLES l, allviol, classes
INSTANCE CaseTrace
=============================================================================
