----------------------------- MODULE MC_device -----------------------------
(***************************************************************************)
(* Bounded configurations of the device engine for exhaustive checking and  *)
(* for the transition dump the tours are computed from.                     *)
(*                                                                         *)
(* Variant selects the configuration family:                                *)
(*   "keys"    three note keys (two on one pitch, one with a channel offset *)
(*             that collides after a channel change; one unmapped and one   *)
(*             re-mapped in the second mapping), state actions, panic        *)
(*   "collide" four keys reaching one <<ch, pitch>> directly, by octave and *)
(*             by channel offset, plus a bystander (C03)                    *)
(*   "arith"   base notes x octaves x semitones x channel offsets, taps (C04)*)
(*   "pairs"   the eight up/down action keys held in every order (C04)      *)
(*   "exit"    exit sequences of length ExitLen over a note key, the panic  *)
(*             key and an unmapped key (C14)                                *)
(* TapActions: action keys are pressed and released in one step.            *)
(***************************************************************************)
EXTENDS DeviceSys, Json

CONSTANTS Variant, Mode, OctB, SemiB, ChanB, TapActions, ExitLen, NBase, AxSet, HoldSet, DumpEdges

StateActs == [KEY_F1 |-> "octave_down", KEY_F2 |-> "octave_up",
              KEY_F3 |-> "semitone_down", KEY_F4 |-> "semitone_up",
              KEY_F5 |-> "channel_down", KEY_F6 |-> "channel_up",
              KEY_F11 |-> "mapping_down", KEY_F12 |-> "mapping_up"]

Restrict(f, S) == [x \in S |-> f[x]]

BaseCfg == [ mode |-> Mode, exit |-> <<>>, vel |-> 101, dOct |-> 0, dSemi |-> 0, dChan |-> 0, dMap |-> 1,
             actions |-> <<>>, maps |-> <<>>, axinfo |-> <<>> ]

-----------------------------------------------------------------------------
KeysCfg ==
  [BaseCfg EXCEPT
     !.actions = Restrict(StateActs, {"KEY_F1", "KEY_F2", "KEY_F5", "KEY_F6", "KEY_F11", "KEY_F12"}
                                     \cup (IF SemiB > 0 THEN {"KEY_F3", "KEY_F4"} ELSE {}))
                 @@ [KEY_ESC |-> "panic", KEY_F9 |-> "cc_learning", KEY_F10 |-> "multinote"],
     !.maps = << [name |-> "M1", axes |-> <<>>,
                  keys |-> [KEY_A |-> [n |-> 60, o |-> 0], KEY_S |-> [n |-> 60, o |-> 0], KEY_D |-> [n |-> 48, o |-> 1],
                            \* an action key that a mapping also binds to a note: it stays an action key
                            KEY_F2 |-> [n |-> 61, o |-> 0]]],
                 [name |-> "M2", axes |-> <<>>,
                  keys |-> [KEY_A |-> [n |-> 72, o |-> 0], KEY_D |-> [n |-> 60, o |-> 15], KEY_ESC |-> [n |-> 50, o |-> 0]]] >>]

CollideCfg ==
  [BaseCfg EXCEPT
     !.actions = Restrict(StateActs, {"KEY_F1", "KEY_F2", "KEY_F5", "KEY_F6"}),
     !.maps = << [name |-> "M1", axes |-> <<>>,
                  keys |-> [KEY_A |-> [n |-> 60, o |-> 0], KEY_S |-> [n |-> 60, o |-> 0],
                            KEY_D |-> [n |-> 48, o |-> 0], KEY_F |-> [n |-> 60, o |-> 15],
                            KEY_G |-> [n |-> 64, o |-> 0]]] >>]

\* base notes at the edges of the MIDI range and of the octaves; NBase of them
BaseNotes == <<0, 127, 60, 1, 126, 11, 12, 115, 116, 59>>
ArithKeyNames == <<"KEY_Q", "KEY_W", "KEY_E", "KEY_R", "KEY_T", "KEY_Y", "KEY_U", "KEY_I", "KEY_O", "KEY_P">>
OffKeyNames == <<"KEY_1", "KEY_2", "KEY_3", "KEY_4">>
OffValues == <<1, 8, 15, 7>>
ArithCfg ==
  [BaseCfg EXCEPT
     !.actions = Restrict(StateActs, {"KEY_F1", "KEY_F2", "KEY_F3", "KEY_F4", "KEY_F5", "KEY_F6"}),
     !.maps = << [name |-> "M1", axes |-> <<>>,
                  keys |-> [k \in {ArithKeyNames[i] : i \in 1..NBase} |->
                              [n |-> BaseNotes[CHOOSE i \in 1..NBase : ArithKeyNames[i] = k], o |-> 0]]
                           @@ [k \in {OffKeyNames[i] : i \in 1..4} |->
                              [n |-> 64, o |-> OffValues[CHOOSE i \in 1..4 : OffKeyNames[i] = k]]]] >>]

PairsCfg ==
  [BaseCfg EXCEPT
     !.dOct = 1, !.dSemi = -1, !.dChan = 2, !.dMap = 2,
     !.actions = StateActs,
     !.maps = << [name |-> "M1", axes |-> <<>>, keys |-> [KEY_A |-> [n |-> 60, o |-> 0]]],
                 [name |-> "M2", axes |-> <<>>, keys |-> [KEY_A |-> [n |-> 62, o |-> 3]]],
                 [name |-> "M3", axes |-> <<>>, keys |-> [KEY_A |-> [n |-> 64, o |-> 0]]] >>]

ExitKeys == <<"KEY_A", "KEY_ESC", "KEY_Z">>
ExitCfg ==
  [BaseCfg EXCEPT
     !.exit = SubSeq(ExitKeys, 1, ExitLen),
     !.actions = [KEY_ESC |-> "panic", KEY_F2 |-> "octave_up"],
     !.maps = << [name |-> "M1", axes |-> <<>>,
                  keys |-> [KEY_A |-> [n |-> 60, o |-> 0], KEY_S |-> [n |-> 60, o |-> 0]]] >>]

\* ---- analog axes
AxisDflt == [type |-> "cc", cc |-> 0, ccNeg |-> 0, note |-> 0, noteNeg |-> 0, off |-> 0, offNeg |-> 0,
             act |-> "", actNeg |-> "", bidi |-> FALSE, flip |-> FALSE, centre |-> FALSE, dzn |-> 1, dzd |-> 10,
             dzsrc |-> "specific"]

\* C07: a signed 16-position stick and a centred unsigned 9-position stick, both bidirectional, with
\* distinct controller numbers and channel offsets; cc-learning key
BidiCfg ==
  [BaseCfg EXCEPT
     !.actions = [KEY_F9 |-> "cc_learning"],
     !.maps = << [name |-> "M1", keys |-> <<>>,
                  axes |-> [ABS_X |-> [AxisDflt EXCEPT !.cc = 1, !.ccNeg = 2, !.offNeg = 1, !.bidi = TRUE],
                            ABS_Y |-> [AxisDflt EXCEPT !.cc = 3, !.ccNeg = 4, !.off = 2, !.bidi = TRUE, !.centre = TRUE,
                                                       !.flip = TRUE],
                            ABS_Z |-> [AxisDflt EXCEPT !.cc = 5, !.ccNeg = 6, !.bidi = TRUE]]] >>,     \* unsigned, no centre zone
     !.axinfo = [ABS_X |-> [min |-> -8, max |-> 7], ABS_Y |-> [min |-> 0, max |-> 8], ABS_Z |-> [min |-> 0, max |-> 10]]]

\* C08: a hat, an unsigned flipped 9-level stick, a signed stick without negative note and an unsigned
\* trigger without negative note (its rest position 0 is the unassigned side)
AKeyCfg ==
  [BaseCfg EXCEPT
     !.actions = Restrict(StateActs, {"KEY_F1", "KEY_F2", "KEY_F5", "KEY_F6"}) @@ [KEY_F9 |-> "cc_learning"],
     !.maps = << [name |-> "M1", keys |-> <<>>,
                  axes |-> [ABS_HAT0X |-> [AxisDflt EXCEPT !.type = "key", !.note = 60, !.noteNeg = 62, !.offNeg = 3,
                                                           !.bidi = TRUE, !.dzn = 0],
                            ABS_Z |-> [AxisDflt EXCEPT !.type = "key", !.note = 64, !.noteNeg = 65, !.bidi = TRUE,
                                                       !.flip = TRUE, !.dzn = 0],
                            ABS_RX |-> [AxisDflt EXCEPT !.type = "key", !.note = 127, !.off = 15, !.dzn = 0],
                            ABS_GAS |-> [AxisDflt EXCEPT !.type = "key", !.note = 30, !.dzn = 0]]] >>,
     !.axinfo = [ABS_HAT0X |-> [min |-> -1, max |-> 1], ABS_Z |-> [min |-> 0, max |-> 8],
                 ABS_RX |-> [min |-> -4, max |-> 4], ABS_GAS |-> [min |-> 0, max |-> 8]]]

\* C01 / C02 / C08 across mappings: the same axes emulate keys in both mappings, with other notes, other channel
\* offsets and - in the second - no note on the negative side: an emulated key held through a mapping switch
AKeyMapCfg ==
  [BaseCfg EXCEPT
     !.actions = Restrict(StateActs, {"KEY_F2", "KEY_F11", "KEY_F12"}) @@ [KEY_F9 |-> "cc_learning"],
     !.maps = << [name |-> "M1", keys |-> <<>>,
                  axes |-> [ABS_HAT0X |-> [AxisDflt EXCEPT !.type = "key", !.note = 60, !.noteNeg = 62, !.offNeg = 3,
                                                           !.bidi = TRUE, !.dzn = 0],
                            ABS_Z |-> [AxisDflt EXCEPT !.type = "key", !.note = 64, !.noteNeg = 65, !.bidi = TRUE,
                                                       !.flip = TRUE, !.dzn = 0]]],
                 [name |-> "M2", keys |-> <<>>,
                  axes |-> [ABS_HAT0X |-> [AxisDflt EXCEPT !.type = "key", !.note = 61, !.off = 1, !.dzn = 0],
                            ABS_Z |-> [AxisDflt EXCEPT !.type = "key", !.note = 65, !.noteNeg = 64, !.off = 2, !.bidi = TRUE,
                                                       !.flip = TRUE, !.dzn = 0]]] >>,
     !.axinfo = [ABS_HAT0X |-> [min |-> -1, max |-> 1], ABS_Z |-> [min |-> 0, max |-> 8]]]

\* C13 through an axis: a trigger that fires panic in the first mapping and is a controller in the second;
\* cc-learning (which drops reports near the centre) and mapping keys; a note key to have something sounding
AActCfg ==
  [BaseCfg EXCEPT
     !.actions = [KEY_F9 |-> "cc_learning", KEY_F12 |-> "mapping_up", KEY_ESC |-> "panic"],
     !.maps = << [name |-> "M1", keys |-> [KEY_A |-> [n |-> 60, o |-> 0]],
                  axes |-> [ABS_Z |-> [AxisDflt EXCEPT !.type = "action", !.act = "panic", !.dzn = 0],
                            ABS_HAT0X |-> [AxisDflt EXCEPT !.type = "action", !.act = "octave_up", !.actNeg = "panic",
                                                           !.bidi = TRUE, !.dzn = 0]]],
                 [name |-> "M2", keys |-> [KEY_A |-> [n |-> 62, o |-> 0]],
                  axes |-> [ABS_Z |-> [AxisDflt EXCEPT !.cc = 5, !.dzn = 0],
                            \* an emulated key on ANOTHER channel than the one a panic silences
                            ABS_HAT0X |-> [AxisDflt EXCEPT !.type = "key", !.note = 64, !.noteNeg = 65, !.off = 1, !.offNeg = 2,
                                                           !.bidi = TRUE, !.dzn = 0]]] >>,
     !.axinfo = [ABS_Z |-> [min |-> 0, max |-> 4], ABS_HAT0X |-> [min |-> -1, max |-> 1]]]

\* C06 (model level): one axis of each transmitting kind on small ranges
AxisCfg ==
  [BaseCfg EXCEPT
     !.maps = << [name |-> "M1", keys |-> <<>>,
                  axes |-> [ABS_X |-> [AxisDflt EXCEPT !.cc = 1],
                            ABS_Y |-> [AxisDflt EXCEPT !.type = "pitch_bend", !.flip = TRUE],
                            ABS_Z |-> [AxisDflt EXCEPT !.cc = 5, !.centre = TRUE],
                            ABS_RZ |-> [AxisDflt EXCEPT !.type = "pitch_bend", !.off = 1, !.dzn = 0]]] >>,
     !.axinfo = [ABS_X |-> [min |-> -16, max |-> 15], ABS_Y |-> [min |-> -16, max |-> 15],
                 ABS_Z |-> [min |-> 0, max |-> 15], ABS_RZ |-> [min |-> 0, max |-> 15]]]

MCCfg == CASE Variant = "keys" -> KeysCfg
           [] Variant = "bidi" -> BidiCfg
           [] Variant = "akey" -> AKeyCfg
           [] Variant = "akeymap" -> AKeyMapCfg
           [] Variant = "aact" -> AActCfg
           [] Variant = "axis" -> AxisCfg
           [] Variant = "collide" -> CollideCfg
           [] Variant = "arith" -> ArithCfg
           [] Variant = "pairs" -> PairsCfg
           [] Variant = "exit" -> ExitCfg

-----------------------------------------------------------------------------
NoteKeysOf(c) == UNION {KeysOf(c, m) : m \in 1..NMaps(c)} \ DOMAIN c.actions
OtherKeys == IF Variant = "exit" THEN {"KEY_Z"} ELSE {}

PressRelease(K) == {[ev |-> e, k |-> k] : e \in {"press", "release"}, k \in K}
Taps(K) == {[ev |-> "tap", k |-> k] : k \in K}

Inputs ==
  (IF Variant \in {"arith", "pairs"} THEN Taps(NoteKeysOf(MCCfg)) ELSE PressRelease(NoteKeysOf(MCCfg) \cup OtherKeys))
  \* action keys are tapped, or - those in HoldSet, when TapActions is off - pressed and released separately
  \cup (IF TapActions THEN Taps(DOMAIN MCCfg.actions)
        ELSE PressRelease(DOMAIN MCCfg.actions \cap HoldSet) \cup Taps(DOMAIN MCCfg.actions \ HoldSet))
  \cup {[ev |-> "axis", a |-> a, raw |-> r] : a \in DOMAIN MCCfg.axinfo \cap AxSet, r \in -16..16}
  \cup {[ev |-> "disconnect"]}

AxisInRange(in) == in.ev = "axis" => (in.raw >= cfg.axinfo[in.a].min /\ in.raw <= cfg.axinfo[in.a].max)

Bound(s) ==
  /\ s.oct \in -OctB..OctB /\ s.semi \in -SemiB..SemiB /\ s.chan \in 0..ChanB
  /\ (Variant = "pairs" => Cardinality(s.held) <= 3)
  /\ s.sigs <= 2

\* C04's quantifier: no third action is pressed while both keys of an up/down pair are held
InGuard(in) ==
  (Variant = "pairs" /\ in.ev = "press" /\ in.k \in DOMAIN cfg.actions) => DoublePair(st.acts) = "none"

Init == InitWith(MCCfg)
Next == \E in \in Inputs : Alternates(in) /\ InGuard(in) /\ AxisInRange(in) /\ ModelStep(in, Bound)
Spec == Init /\ [][Next]_vars

\* the configuration, then every transition, for the tour generator
ASSUME DumpEdges => PrintT(ToJson([init |-> "init", cfg |-> MCCfg]))
Dump == DumpEdges => PrintT(ToJson([f |-> ToString(st), i |-> lastIn', t |-> ToString(st'), d |-> st'.phase = "done"]))
=============================================================================
