----------------------------- MODULE CaseTrace -----------------------------
(***************************************************************************)
(* Generic validation of a trace of independent cases (the "enumerated     *)
(* oracle" use of a specification): every line of the ndjson file is one    *)
(* case -- an input description and what the REAL code returned for it --   *)
(* and Judge(line) is the set of names of the specification's predicates    *)
(* that the observed result violates.  Failures are recorded, not enforced, *)
(* so one run reports all of them.  Final(seen) judges the whole set of     *)
(* lines (completeness conditions).                                         *)
(***************************************************************************)
EXTENDS Integers, Sequences, FiniteSets, TLC, Json

\* Trace is defined by the instantiating module as ndJsonDeserialize(TraceFile): a zero-arity
\* constant definition of the root module is evaluated once by TLC, one inside an instance is not
CONSTANTS Trace, Judge(_), Final(_), ClassOf(_)

VARIABLES l, allviol, classes

cvars == <<l, allviol, classes>>

CaseInit == l = 1 /\ allviol = {} /\ classes = <<>>

CountUp(f, x) == [y \in DOMAIN f \cup {x} |-> IF y = x THEN (IF x \in DOMAIN f THEN f[x] ELSE 0) + 1 ELSE f[y]]

CaseStep ==
  /\ l <= Len(Trace)
  /\ LET nv == allviol \cup {<<n, l>> : n \in Judge(Trace[l])}
         nc == CountUp(classes, ClassOf(Trace[l]))
     IN /\ allviol' = nv /\ classes' = nc
        /\ (l = Len(Trace) =>
              LET fv == nv \cup {<<n, 0>> : n \in Final(Trace)}
              IN PrintT(<<"TRACE-RESULT", ToJson([lines |-> Len(Trace), viol |-> fv, drift |-> {},
                                                   branches |-> [x \in DOMAIN nc |-> nc[x]]])>>))
  /\ l' = l + 1

TraceSpec == CaseInit /\ [][CaseStep]_cvars
TraceAccepted == TLCGet("stats").diameter = Len(Trace) + 1
=============================================================================
