--------------------------- MODULE UpkeepHistTrace ---------------------------
(* C18 trace validation: runs recorded by lib/upkeep.py (strace + tree snapshots) *)
EXTENDS Integers, Sequences, FiniteSets, TLC, Json
CONSTANT TraceFile
Trace == ndJsonDeserialize(TraceFile)
VARIABLES l, allviol, classes
H == INSTANCE UpkeepHist
Judge(ln) == H!Judge(ln)
ClassOf(ln) == H!ClassOf(ln)
Final(tr) == H!Final(tr)
INSTANCE CaseTrace
=============================================================================
