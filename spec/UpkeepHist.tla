----------------------------- MODULE UpkeepHist -----------------------------
(***************************************************************************)
(* C18 binding: runs of the real updateHIDIConfiguration (the application   *)
(* binary with the verif entry) on prepared hidi-config trees, observed by  *)
(* strace (the file-system mutations, in order) and by snapshots of the     *)
(* tree before and after, judged with the properties of Upkeep.tla.         *)
(*                                                                         *)
(* Line 1: [ev |-> "template", entries : [path, kind, factory], root, blacklist]               *)
(* Other : [ev |-> "upkeep", kind : "first" | "second" | "crashed" | "recovery",               *)
(*          pre, post : path -> state, muts : [op, path], rc, killed]                          *)
(* States: "absent" "dir" "intact" "empty" "partial" "modified" "longer" or "h:<digest>" for    *)
(* content that is not related to a template (user files).                                      *)
(***************************************************************************)
EXTENDS Integers, Sequences, FiniteSets, TLC, Json

CONSTANT Trace   \* the whole trace (line 1 carries the template)

Tpl == Trace[1]
Range(s) == {s[i] : i \in 1..Len(s)}
Entries == Range(Tpl.entries)
FactoryPaths == {e.path : e \in {x \in Entries : x.factory}}
FactoryFiles == {e.path : e \in {x \in Entries : x.factory /\ x.kind = "file"}}
FactoryDirs  == {e.path : e \in {x \in Entries : x.factory /\ x.kind = "dir"}}
TemplatePaths == {e.path : e \in Entries}

St(t, p) == IF p \in DOMAIN t THEN t[p] ELSE "absent"

RestoredIn(t) == /\ \A p \in FactoryFiles : St(t, p) = "intact"
                 /\ \A p \in FactoryDirs : St(t, p) = "dir"
                 /\ St(t, Tpl.blacklist) # "absent"

Complete(ln) == ~ln.killed /\ ln.kind \in {"first", "second", "recovery"}

Judge(ln) ==
  IF ln.ev # "upkeep" THEN {}
  ELSE
    LET rootAbsent == St(ln.pre, Tpl.root) = "absent"
        blAbsent == St(ln.pre, Tpl.blacklist) = "absent"
        \* ln.facnew: the paths of the two snapshots that lie inside the factory directory (classified by the
        \* driver; TLC has no string-prefix test): that directory is the program's own
        MayTouch(p) == p \in FactoryPaths \/ p \in Range(ln.facnew) \/ (p = Tpl.blacklist /\ blAbsent) \/ rootAbsent
    IN (IF /\ \A m \in Range(ln.muts) :
                 \/ m.fac                        \* anywhere inside the factory directory (temporary files included)
                 \/ (m.path = Tpl.blacklist /\ blAbsent /\ m.op \in {"create", "write"})
                 \/ rootAbsent
           /\ \A p \in DOMAIN ln.pre \cup DOMAIN ln.post : ~MayTouch(p) => St(ln.post, p) = St(ln.pre, p)
           /\ DOMAIN ln.post \subseteq DOMAIN ln.pre \cup TemplatePaths \cup {p \in DOMAIN ln.post : p \in Range(ln.facnew)}
        THEN {} ELSE {"C18_UserUntouched"})
       \cup (IF Complete(ln) => (ln.rc = 0 /\ RestoredIn(ln.post)) THEN {}
             ELSE IF ln.kind = "recovery" THEN {"C18_Recovers"} ELSE {"C18_Restored"})
       \cup (IF (Complete(ln) /\ rootAbsent) =>
                  \A e \in Entries : St(ln.post, e.path) = (IF e.kind = "dir" THEN "dir" ELSE "intact")
             THEN {} ELSE {"C18_CompleteWhenAbsent"})
       \cup (IF ln.kind = "second" => (ln.muts = <<>> /\ ln.post = ln.pre) THEN {} ELSE {"C18_Idempotent"})

ClassOf(ln) == IF ln.ev = "upkeep" THEN ln.kind \o (IF ln.ev = "upkeep" /\ St(ln.pre, Tpl.root) = "absent" THEN ":no-directory" ELSE ":existing") ELSE ln.ev
Final(tr) == {}
=============================================================================
