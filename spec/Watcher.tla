------------------------------- MODULE Watcher -------------------------------
(***************************************************************************)
(* C19: the configuration watcher                                           *)
(* (config.DetectDeviceConfigChanges, internal/pkg/midi/device/config/      *)
(* monitor.go): inotify queue -> fsnotify reader -> filter goroutine        *)
(* (write events on files whose name ends in .toml) -> unbuffered hand-off  *)
(* `change <- true` -> consumer.  Cancellation closes the watcher; the       *)
(* filter loop ends when the event stream is closed and closes `change`.    *)
(*                                                                         *)
(* The kernel coalesces an event with the last queued one when they are     *)
(* identical and still unread.                                              *)
(***************************************************************************)
EXTENDS Integers, Sequences, FiniteSets, TLC

CONSTANTS Files,      \* set of [name, toml : BOOLEAN]
          NWrites     \* number of in-place modifications the environment performs

VARIABLES kq,        \* kernel queue: sequence of files (one IN_MODIFY each)
          written,   \* number of writes done
          tomlDone,  \* number of writes to toml files done
          pend,      \* the filter goroutine holds a notification it is trying to hand over
          got,       \* notifications the consumer received
          consumed,  \* toml write events taken out of the queue by the filter
          coalesced, \* toml writes merged by the kernel into an unread identical event
          cancelled, closedEv, closedCh

vars == <<kq, written, tomlDone, pend, got, consumed, coalesced, cancelled, closedEv, closedCh>>

Init == /\ kq = <<>> /\ written = 0 /\ tomlDone = 0 /\ pend = FALSE /\ got = 0 /\ consumed = 0 /\ coalesced = 0
        /\ cancelled = FALSE /\ closedEv = FALSE /\ closedCh = FALSE

Write(f) == /\ written < NWrites
            /\ written' = written + 1
            /\ tomlDone' = tomlDone + (IF f.toml THEN 1 ELSE 0)
            /\ IF kq # <<>> /\ kq[Len(kq)] = f
                 THEN /\ UNCHANGED kq /\ coalesced' = coalesced + (IF f.toml THEN 1 ELSE 0)      \* merged into the unread identical event
                 ELSE /\ kq' = Append(kq, f) /\ UNCHANGED coalesced
            /\ UNCHANGED <<pend, got, consumed, cancelled, closedEv, closedCh>>

\* the filter goroutine takes the next event: passes toml writes on, drops the rest
Take == /\ ~pend /\ ~closedEv /\ kq # <<>>
        /\ kq' = Tail(kq)
        /\ IF Head(kq).toml THEN pend' = TRUE /\ consumed' = consumed + 1 ELSE UNCHANGED <<pend, consumed>>
        /\ UNCHANGED <<written, tomlDone, got, coalesced, cancelled, closedEv, closedCh>>

\* change <- true / <-change
HandOver == /\ pend /\ pend' = FALSE /\ got' = got + 1
            /\ UNCHANGED <<kq, written, tomlDone, consumed, coalesced, cancelled, closedEv, closedCh>>

Cancel == /\ ~cancelled /\ cancelled' = TRUE
          /\ UNCHANGED <<kq, written, tomlDone, pend, got, consumed, coalesced, closedEv, closedCh>>

\* watcher.Close(): the event stream is closed (pending kernel events are dropped)
CloseEvents == /\ cancelled /\ ~closedEv /\ closedEv' = TRUE
               /\ UNCHANGED <<kq, written, tomlDone, pend, got, consumed, coalesced, cancelled, closedCh>>

\* the filter loop sees the closed stream (it cannot while it is blocked handing over) and closes `change`
CloseChange == /\ closedEv /\ ~pend /\ ~closedCh /\ closedCh' = TRUE
               /\ UNCHANGED <<kq, written, tomlDone, pend, got, consumed, coalesced, cancelled, closedEv>>

Next == (\E f \in Files : Write(f)) \/ Take \/ HandOver \/ Cancel \/ CloseEvents \/ CloseChange

\* the consumer eventually reads (promptly or late); the goroutines run
Spec == Init /\ [][Next]_vars /\ WF_vars(Take) /\ WF_vars(HandOver) /\ WF_vars(CloseEvents) /\ WF_vars(CloseChange)

-----------------------------------------------------------------------------
\* no notification without a toml write behind it
NoneForOthers == got + (IF pend THEN 1 ELSE 0) = consumed /\ consumed + coalesced <= tomlDone
\* every toml write is followed by a notification: once everything is quiet and nothing was cancelled,
\* each write is accounted for by a delivered notification (its own or the one it was merged into)
Notified == (~cancelled /\ written = NWrites) ~> (cancelled \/ (got + coalesced = tomlDone))
StreamEnds == cancelled ~> closedCh
NoNotificationAfterClose == closedCh => ~pend
=============================================================================
