------------------------------- MODULE Loader -------------------------------
(***************************************************************************)
(* C12: selection of a device configuration                                 *)
(* (internal/pkg/midi/device/config/loader.go).                             *)
(*                                                                         *)
(* Four candidate files per device class, in precedence order:              *)
(*   1 user file for the exact identifier   2 user default (zero id)        *)
(*   3 factory file for the exact identifier 4 factory default              *)
(* taken from the keyboard directories for keyboards and the gamepad        *)
(* directories for joysticks.  Other device types are unsupported.          *)
(* Files that fail to parse, non-TOML files and foreign configurations do   *)
(* not influence the choice; a missing directory is an error of the load or *)
(* counts as empty.                                                         *)
(***************************************************************************)
EXTENDS Integers, Sequences, FiniteSets, TLC, Json

Slots == <<"user/id", "user/zero", "factory/id", "factory/zero">>
Classes == {"keyboard", "gamepad"}
DevTypes == {"Keyboard", "Joystick", "Mouse", "Unknown"}
JunkKinds == {"none", "broken", "decoder_panic", "txt", "nested_broken", "foreign", "nested_foreign"}
Dirs == {"factory/gamepad", "factory/keyboard", "user/gamepad", "user/keyboard"}

ClassOfType(t) == CASE t = "Keyboard" -> "keyboard" [] t = "Joystick" -> "gamepad" [] OTHER -> "unsupported"

DirOfSlot(slot, class) == (IF slot \in {"user/id", "user/zero"} THEN "user/" ELSE "factory/") \o class

\* p : [class -> [slot -> BOOLEAN]] ; missing : set of directories that do not exist
Effective(p, class, missing) == [i \in 1..4 |-> p[class][Slots[i]] /\ DirOfSlot(Slots[i], class) \notin missing]

\* 0 = no configuration (error), otherwise the index of the chosen slot
Chosen(p, type, missing) ==
  LET c == ClassOfType(type)
  IN IF c = "unsupported" THEN 0
     ELSE LET e == Effective(p, c, missing)
          IN IF \E i \in 1..4 : e[i] THEN CHOOSE i \in 1..4 : e[i] /\ \A j \in 1..(i - 1) : ~e[j] ELSE 0

\* the marker (defaults.octave) a file carries: slot index, +4 for the gamepad class
Marker(class, i) == i + (IF class = "gamepad" THEN 4 ELSE 0)

\* design-level sanity: user beats factory, exact beats default, junk is not an argument of Chosen
ASSUME \A t \in {"Keyboard", "Joystick"} :
         LET all == [c \in Classes |-> [s \in {Slots[i] : i \in 1..4} |-> TRUE]]
         IN Chosen(all, t, {}) = 1
ASSUME LET only == [c \in Classes |-> [s \in {Slots[i] : i \in 1..4} |-> s = "factory/zero"]]
       IN Chosen(only, "Keyboard", {}) = 4 /\ Chosen(only, "Mouse", {}) = 0
          /\ Chosen(only, "Keyboard", {"factory/keyboard"}) = 0

-----------------------------------------------------------------------------
(* Judging one observed LoadDeviceConfigs + FindConfig                      *)
(*  ln.p       [keyboard |-> [..], gamepad |-> [..]] presence of the slots  *)
(*  ln.type, ln.junk, ln.missing (sequence of directory names)              *)
(*  ln.outcome "config" | "error" | "loaderror" | "panic";  ln.marker       *)

Judge(ln) ==
  IF ln.ev # "case" THEN {}
  ELSE
    LET missing == {ln.missing[i] : i \in 1..Len(ln.missing)}
        ch == Chosen(ln.p, ln.type, missing)
        c == ClassOfType(ln.type)
        iso == IF ln.junk = "none" THEN {} ELSE {"C12_Isolation"}
    IN CASE ln.outcome = "panic" -> {"C12_NoCrash"}
         [] ln.outcome = "loaderror" -> IF missing # {} THEN {} ELSE {"C12_Choice"} \cup iso
         [] ln.outcome = "error" -> IF ch = 0 THEN {} ELSE {"C12_Choice"} \cup iso
         [] ln.outcome = "config" -> IF ch # 0 /\ ln.marker = Marker(c, ch) THEN {} ELSE {"C12_Choice"} \cup iso
         [] OTHER -> {"X_BadLine"}

ClassOf(ln) == IF ln.ev = "case" THEN ln.outcome ELSE ln.ev
Final(tr) == {}
=============================================================================
