----------------------------- MODULE NoteNames -----------------------------
(***************************************************************************)
(* C11: note names and numbers (internal/pkg/midi/device/config/event.go).  *)
(* The 128 names C-2 ... G8: letter A-G, optional #, octave -2..8, any      *)
(* letter case.  Name / Spellings / Value define the bijection; everything  *)
(* else is not a note name.                                                 *)
(***************************************************************************)
EXTENDS Integers, Sequences, FiniteSets, TLC, Json

PitchClass == <<"C", "C#", "D", "D#", "E", "F", "F#", "G", "G#", "A", "A#", "B">>
Lower == [C |-> "c", D |-> "d", E |-> "e", F |-> "f", G |-> "g", A |-> "a", B |-> "b"]
LowerPC == <<"c", "c#", "d", "d#", "e", "f", "f#", "g", "g#", "a", "a#", "b">>

OctStr(o) == CASE o = -2 -> "-2" [] o = -1 -> "-1" [] o = 0 -> "0" [] o = 1 -> "1" [] o = 2 -> "2" [] o = 3 -> "3"
               [] o = 4 -> "4" [] o = 5 -> "5" [] o = 6 -> "6" [] o = 7 -> "7" [] o = 8 -> "8"

Pitch(n)  == PitchClass[(n % 12) + 1]       \* NoteToPitch
Octave(n) == (n \div 12) - 2                \* NoteToOctave
Name(n)   == Pitch(n) \o OctStr(Octave(n))

Spellings(n) == {PitchClass[(n % 12) + 1] \o OctStr(Octave(n)), LowerPC[(n % 12) + 1] \o OctStr(Octave(n))}
Valid == UNION {Spellings(n) : n \in 0..127}
Value(s) == CHOOSE n \in 0..127 : s \in Spellings(n)

\* spellings the statement leaves open: octave "-0" (either rejected or octave 0)
OpenSpellings == {p \o "-0" : p \in {PitchClass[i] : i \in 1..12} \cup {LowerPC[i] : i \in 1..12}}
OpenValue(s) == CHOOSE n \in 24..35 : s \in {PitchClass[(n % 12) + 1] \o "-0", LowerPC[(n % 12) + 1] \o "-0"}

\* the design is a bijection
ASSUME \A n, m \in 0..127 : n # m => Spellings(n) \cap Spellings(m) = {}
ASSUME Cardinality(Valid) = 256
ASSUME \A n \in 0..127 : Value(Name(n)) = n
ASSUME Name(0) = "C-2" /\ Name(127) = "G8" /\ Name(60) = "C3"
\* the names the harness must try whatever their length (printed for it)
ASSUME PrintT(<<"MUSTLOG", ToJson(Valid \cup OpenSpellings)>>)

-----------------------------------------------------------------------------
(* Judging observed results.  Lines:                                        *)
(*  [ev |-> "s2n", s, ok, v]    StringToNote(s) returned v (ok) or an error *)
(*  [ev |-> "n2s", n, pitch, oct]  NoteToPitch(n), NoteToOctave(n)          *)
(*  [ev |-> "summary", ...]     counts                                      *)

Judge(ln) ==
  CASE ln.ev = "s2n" ->
         (IF ln.s \in Valid
            THEN (IF ln.ok /\ ln.v = Value(ln.s) THEN {} ELSE {"C11_NameToNumber"})
            ELSE IF ln.s \in OpenSpellings
                   THEN (IF ~ln.ok \/ ln.v = OpenValue(ln.s) THEN {} ELSE {"C11_NameToNumber"})
                   ELSE (IF ln.ok THEN {"C11_NothingElse"} ELSE {}))
    [] ln.ev = "n2s" ->
         (IF ln.pitch = Pitch(ln.n) /\ ln.oct = Octave(ln.n) THEN {} ELSE {"C11_NumberToName"})
    \* the name as displayed (blanks removed) is a name of exactly that number - also when several goroutines format at once
    [] ln.ev = "disp" ->
         (IF ln.s \in Valid /\ Value(ln.s) = ln.n THEN {} ELSE {"C11_NumberToName"})
    \* the name where it is used: as the note of a key in a configuration, with or without a channel offset behind it
    [] ln.ev = "cfg" ->
         (IF ln.s \in Valid
            THEN (IF ln.ok /\ ln.v = Value(ln.s) /\ ln.off = (IF ln.want < 0 THEN 0 ELSE ln.want) THEN {} ELSE {"C11_NameToNumber"})
            ELSE IF ln.s \in OpenSpellings THEN {}
                   ELSE (IF ln.ok THEN {"C11_NothingElse"} ELSE {}))
    [] ln.ev = "crash" -> {"X_Crash"}
    [] OTHER -> {}

ClassOf(ln) == IF ln.ev = "s2n" THEN (IF ln.ok THEN "accepted" ELSE "rejected-listed") ELSE ln.ev

\* every valid name was tried and every number was converted
Final(tr) ==
  LET tried == {tr[i].s : i \in {j \in 1..Len(tr) : tr[j].ev = "s2n"}}
      nums  == {tr[i].n : i \in {j \in 1..Len(tr) : tr[j].ev = "n2s"}}
  IN (IF Valid \subseteq tried THEN {} ELSE {"X_Incomplete"})
     \cup (IF nums = 0..127 THEN {} ELSE {"X_Incomplete"})
=============================================================================
