--------------------------------- MODULE Led ---------------------------------
(***************************************************************************)
(* C17 (and the observable part of C16): LED feedback of a device           *)
(* (internal/pkg/midi/device/open_rgb.go:497-668, events.go:370-392).       *)
(*                                                                         *)
(* Every 10 ms the LED goroutine computes, under the event mutex, one       *)
(* colour per LED of the controller from the playing state, the note        *)
(* tracker and the MIDI-input tracker `ext`, and sends it to the OpenRGB    *)
(* server.  FrameFailures judges one received frame against the abstract    *)
(* state of DeviceSys plus ext.                                             *)
(*                                                                         *)
(* layout : sequence, per LED a key name or "other:<name>"                   *)
(* colors : [white, black, c, unavailable, other, active, active_external -> <<r, g, b>>] *)
(***************************************************************************)
EXTENDS DeviceSys

VARIABLES ext,    \* MIDI-input tracker: set of <<ch, note>> on
          seen    \* colour first seen per implementation-defined class (palette consistency)

\* events.go:370-392 as the statement wants it: Note Off and Note On with velocity 0 clear
MidiInNext(e, msg) ==
  IF Len(msg) # 3 THEN e
  ELSE CASE IsOn(msg) /\ msg[3] > 0 -> e \cup {<<ChanOf(msg), msg[2]>>}
         [] IsOff(msg) \/ (IsOn(msg) /\ msg[3] = 0) -> e \ {<<ChanOf(msg), msg[2]>>}
         [] OTHER -> e

Near(rgb, t) == \A i \in 1..3 : Abs(rgb[i] - t[i]) <= 2
IsOther(l) == \E i \in 1..1 : l \in {"other:Logo", "other:Strip 1", "other:Light Bar", "other:Media"}
                                       \cup {"other:RGB Strip " \o ToString(n) : n \in 1..18}

PitchOfKey(c, s, k) == c.maps[s.map].keys[k].n + 12 * s.oct + s.semi
BaseColour(colors, mapName, p) ==
  IF mapName = "Control" THEN colors.white          \* named deviation of the code: the mapping called "Control" is all white
  ELSE IF p % 12 = 0 THEN colors.c
  ELSE IF p % 12 \in {1, 3, 6, 8, 10} THEN colors.black
  ELSE colors.white

ActionClass(s, c, a) ==
  CASE a = "octave_up"     -> <<"step", IF s.oct <= 0 THEN 0 ELSE IF s.oct = 1 THEN 1 ELSE 2>>
    [] a = "octave_down"   -> <<"step", IF s.oct >= 0 THEN 0 ELSE IF s.oct = -1 THEN 1 ELSE 2>>
    [] a = "semitone_up"   -> <<"step", IF s.semi <= 0 THEN 0 ELSE IF s.semi = 1 THEN 1 ELSE 2>>
    [] a = "semitone_down" -> <<"step", IF s.semi >= 0 THEN 0 ELSE IF s.semi = -1 THEN 1 ELSE 2>>
    [] a = "mapping_up"    -> <<"map", IF s.map = NMaps(c) THEN 0 ELSE 1>>
    [] a = "mapping_down"  -> <<"map", IF s.map = 1 THEN 0 ELSE 1>>
    [] a = "channel_up"    -> <<"chan", s.chan, s.chan = 15>>
    [] a = "channel_down"  -> <<"chan", s.chan, s.chan = 0>>
    [] OTHER -> <<"none">>

\* one LED: <<set of failed predicate names, class to remember (or <<>>) , rgb>>
JudgeLed(c, colors, s, e, k, rgb, sn) ==
  IF IsOther(k) \/ (k \notin DOMAIN c.actions /\ k \notin KeysOf(c, s.map)) THEN <<{}, <<>>>>
  ELSE IF k \in KeysOf(c, s.map) THEN
    LET p == PitchOfKey(c, s, k)
        sounding == {s.trk[x][2] : x \in DOMAIN s.trk}
        extCh == {q[1] : q \in {x \in e : x[2] = p}}
    IN IF p \notin 0..127 THEN <<(IF Near(rgb, colors.unavailable) THEN {} ELSE {"C17_NoteKeys"}), <<>>>>
       \* precedence, in the order the statement names them: sounding from the keyboard - the active colour;
       \* otherwise sounding on MIDI input on the current channel - the external colour; otherwise the colour of
       \* one of the channels it sounds on (which one of several is not demanded)
       ELSE IF p \in sounding THEN <<(IF Near(rgb, colors.active) THEN {} ELSE {"C17_NoteKeys"}), <<>>>>
       ELSE IF s.chan \in extCh THEN <<(IF Near(rgb, colors.active_external) THEN {} ELSE {"C17_NoteKeys"}), <<>>>>
       ELSE IF extCh \ {s.chan} # {} /\ (\E ch \in extCh \ {s.chan} : <<"palette", ch>> \in DOMAIN sn /\ sn[<<"palette", ch>>] = rgb)
              THEN <<{}, <<>>>>
       \* a channel's colour seen for the first time: not the key's own colour, and not its neighbour channels' colour
       ELSE IF extCh \ {s.chan} # {} /\ (\E ch \in extCh \ {s.chan} : <<"palette", ch>> \notin DOMAIN sn)
                 /\ ~Near(rgb, BaseColour(colors, c.maps[s.map].name, p))
                 /\ ~(\E ch \in extCh \ {s.chan} : <<"palette", ch>> \notin DOMAIN sn
                        /\ \E o \in DOMAIN sn : o[1] = "palette" /\ (o[2] = ch + 1 \/ o[2] = ch - 1) /\ sn[o] = rgb)
              THEN <<{}, <<"palette", CHOOSE ch \in extCh \ {s.chan} : <<"palette", ch>> \notin DOMAIN sn>>>>
       ELSE IF p \notin sounding /\ extCh = {} /\ Near(rgb, BaseColour(colors, c.maps[s.map].name, p)) THEN <<{}, <<>>>>
       ELSE <<{"C17_NoteKeys"}, <<>>>>
  ELSE
    LET cls == ActionClass(s, c, c.actions[k])
    IN IF cls[1] = "none" THEN <<{}, <<>>>>
       ELSE IF cls \in DOMAIN sn THEN <<(IF sn[cls] = rgb THEN {} ELSE {"C17_ActionKeys"}), <<>>>>
       \* a class seen for the first time must look different from the other classes of its kind
       ELSE IF \E o \in DOMAIN sn : o[1] = cls[1] /\ o # cls /\ sn[o] = rgb /\ (cls[1] # "chan" \/ (o[2] = cls[2]))
              THEN <<{"C17_ActionKeys"}, <<>>>>
       \* "the channel keys reflect the current value": the neighbouring channel does not look the same
       ELSE IF cls[1] = "chan" /\ \E o \in DOMAIN sn : o[1] = "chan" /\ o[3] = cls[3] /\ (o[2] = cls[2] + 1 \/ o[2] = cls[2] - 1) /\ sn[o] = rgb
              THEN <<{"C17_ActionKeys"}, <<>>>>
       ELSE <<{}, cls>>

FrameJudgement(c, colors, layout, s, e, frame, sn) ==
  IF Len(frame) # Len(layout) THEN [fail |-> {"C17_FrameShape"}, seen |-> sn]
  ELSE LET J(i) == JudgeLed(c, colors, s, e, layout[i], frame[i], sn)
           news == {i \in 1..Len(layout) : J(i)[2] # <<>>}
       IN [fail |-> UNION {J(i)[1] : i \in 1..Len(layout)},
           seen |-> [x \in DOMAIN sn \cup {J(i)[2] : i \in news} |->
                       IF x \in DOMAIN sn THEN sn[x] ELSE frame[CHOOSE i \in news : J(i)[2] = x]]]

AllRed(frame) == \A i \in 1..Len(frame) : frame[i] = <<255, 0, 0>>
=============================================================================
