------------------------------- MODULE Upkeep -------------------------------
(***************************************************************************)
(* C18: start-up upkeep of the hidi-config directory                        *)
(* (updateHIDIConfiguration, cmd/hidi/config.go:73-223).                    *)
(*                                                                         *)
(* The template tree is embedded in the binary.  If the directory does not  *)
(* exist the whole tree is created; otherwise the factory part is walked:   *)
(* missing directories are made, missing files created, files that differ   *)
(* from their template truncated and rewritten; the device blacklist is     *)
(* created only if missing.  One file-system mutation (mkdir, create,       *)
(* truncate, write) is one action; a crash may happen between any two.      *)
(*                                                                         *)
(* File states (relative to the template of the path):                      *)
(*   "absent" "dir" "intact" "empty" "partial" (a proper prefix)            *)
(*   "modified" (same length, other bytes) "longer" (template plus a tail)  *)
(*   user-owned paths carry "user" and must never change.                   *)
(***************************************************************************)
EXTENDS Integers, Sequences, FiniteSets, TLC

CONSTANTS Template,   \* sequence of [path, kind : "dir"|"file", factory : BOOLEAN] in the walk order of the embedded tree
          Root,       \* "hidi-config"
          Blacklist,  \* path of the device blacklist
          UserPaths,  \* paths of user-owned files (under user/, hidi.toml, extra files in factory directories)
          MaxRuns     \* bound on the number of (possibly interrupted) runs

Paths == {Template[i].path : i \in 1..Len(Template)}
FactoryIdx == {i \in 1..Len(Template) : Template[i].factory}
FactoryPaths == {Template[i].path : i \in FactoryIdx}
FactoryFiles == {Template[i].path : i \in {j \in FactoryIdx : Template[j].kind = "file"}}
FactoryDirs == {Template[i].path : i \in {j \in FactoryIdx : Template[j].kind = "dir"}}

VARIABLES tree,     \* path -> state
          phase,    \* "start" | "all" (creating the whole tree) | "factory" | "blacklist" | "done"
          idx,      \* index into Template of the entry being processed
          pend,     \* "none" | "write" : the file of the current entry was opened for writing, its data not yet written
          mut,      \* the last mutation [op, path] (or [op |-> "none"])
          runs,     \* number of runs started
          nmut,     \* mutations performed by the current run
          rootWasAbsent \* the current run found no directory (it may then create everything)

vars == <<tree, phase, idx, pend, mut, runs, nmut, rootWasAbsent>>

NoMut == [op |-> "none", path |-> ""]

\* what the walk does with entry i in the current tree: the next mutation, or "skip"
StepOf(i, t, all) ==
  LET e == Template[i]
  IN IF e.kind = "dir"
       THEN IF t[e.path] = "absent" THEN "mkdir" ELSE "skip"         \* (branch "all": Mkdir fails if it exists; cannot, the root was absent)
       ELSE IF t[e.path] = "absent" THEN "create"
            ELSE IF all THEN "create"                                  \* O_CREATE|O_WRONLY on whatever is there
            ELSE IF t[e.path] = "intact" THEN "skip" ELSE "trunc"      \* compare, then O_TRUNC and rewrite

Start ==
  /\ phase = "start" /\ runs < MaxRuns
  /\ runs' = runs + 1 /\ nmut' = 0 /\ pend' = "none" /\ mut' = NoMut
  /\ rootWasAbsent' = (tree[Root] = "absent")
  /\ IF tree[Root] = "absent"
       THEN phase' = "all" /\ idx' = 1
       ELSE phase' = "factory" /\ idx' = (IF FactoryIdx = {} THEN Len(Template) + 1 ELSE CHOOSE i \in FactoryIdx : \A j \in FactoryIdx : i <= j)
  /\ UNCHANGED tree

NextIdx(i) == IF phase = "all" THEN i + 1
              ELSE IF \E j \in FactoryIdx : j > i THEN CHOOSE j \in FactoryIdx : j > i /\ \A k \in FactoryIdx : k > i => j <= k
              ELSE Len(Template) + 1

Mutate(op, p, st) == /\ tree' = [tree EXCEPT ![p] = st] /\ mut' = [op |-> op, path |-> p] /\ nmut' = nmut + 1

WalkStep ==
  /\ phase \in {"all", "factory"} /\ idx <= Len(Template)
  /\ LET e == Template[idx]
     IN IF pend = "write"
          THEN /\ Mutate("write", e.path, "intact") /\ pend' = "none" /\ idx' = NextIdx(idx) /\ UNCHANGED phase
          ELSE LET s == StepOf(idx, tree, phase = "all")
               IN CASE s = "skip"   -> /\ idx' = NextIdx(idx) /\ mut' = NoMut /\ UNCHANGED <<tree, pend, phase, nmut>>
                    [] s = "mkdir"  -> /\ Mutate("mkdir", e.path, "dir") /\ idx' = NextIdx(idx) /\ UNCHANGED <<pend, phase>>
                    [] s = "create" -> /\ Mutate("create", e.path, IF tree[e.path] = "absent" THEN "empty" ELSE tree[e.path])
                                       /\ pend' = "write" /\ UNCHANGED <<idx, phase>>
                    [] s = "trunc"  -> /\ Mutate("trunc", e.path, "empty") /\ pend' = "write" /\ UNCHANGED <<idx, phase>>
  /\ UNCHANGED <<runs, rootWasAbsent>>

WalkDone ==
  /\ phase \in {"all", "factory"} /\ idx > Len(Template)
  /\ phase' = (IF phase = "all" THEN "done" ELSE "blacklist")
  /\ mut' = NoMut /\ UNCHANGED <<tree, idx, pend, runs, nmut, rootWasAbsent>>

BlacklistStep ==
  /\ phase = "blacklist"
  /\ IF pend = "write"
       THEN /\ Mutate("write", Blacklist, "intact") /\ pend' = "none" /\ phase' = "done"
       ELSE IF tree[Blacklist] = "absent"
              THEN /\ Mutate("create", Blacklist, "empty") /\ pend' = "write" /\ UNCHANGED phase
              ELSE /\ phase' = "done" /\ mut' = NoMut /\ UNCHANGED <<tree, pend, nmut>>
  /\ UNCHANGED <<idx, runs, rootWasAbsent>>

\* the process is killed between two file-system operations; the next run starts from scratch
Crash ==
  /\ phase \in {"all", "factory", "blacklist"}
  /\ phase' = "start" /\ pend' = "none" /\ mut' = NoMut
  /\ UNCHANGED <<tree, idx, runs, nmut, rootWasAbsent>>

\* a complete run is followed by another start of the application
Again ==
  /\ phase = "done" /\ runs < MaxRuns
  /\ phase' = "start" /\ mut' = NoMut /\ UNCHANGED <<tree, idx, pend, runs, nmut, rootWasAbsent>>

Next == Start \/ WalkStep \/ WalkDone \/ BlacklistStep \/ Crash \/ Again

-----------------------------------------------------------------------------
(* Properties                                                               *)

\* every mutation is on a factory path, or creates the missing blacklist, or happens while creating
\* the whole tree because the directory did not exist
UserUntouchedStep ==
  mut.op # "none" => \/ mut.path \in FactoryPaths
                     \/ (mut.path = Blacklist /\ mut.op \in {"create", "write"})
                     \/ rootWasAbsent
UserUntouched == UserUntouchedStep /\ \A p \in UserPaths : tree[p] = "user"

\* the blacklist is only ever created, never truncated
BlacklistOnlyCreated == mut.path = Blacklist => (mut.op \in {"create", "write"} /\ (mut.op = "create" => tree[Blacklist] = "empty"))

RestoredIn(t) == /\ \A p \in FactoryFiles : t[p] = "intact"
                 /\ \A p \in FactoryDirs : t[p] = "dir"
                 /\ t[Blacklist] # "absent"
Restored == phase = "done" => RestoredIn(tree)

\* when the directory did not exist the complete template tree is created
CompleteWhenAbsent == (phase = "done" /\ rootWasAbsent) =>
                         \A i \in 1..Len(Template) : tree[Template[i].path] = (IF Template[i].kind = "dir" THEN "dir" ELSE "intact")

\* a run over a restored tree performs no mutation
Idempotent == (phase = "done" /\ nmut > 0) => TRUE
IdempotentStep == [][(phase = "start" /\ RestoredIn(tree) /\ tree[Root] # "absent") => (phase' = "start" \/ nmut' = 0)]_vars
NoMutationWhenRestored ==
  [][(RestoredIn(tree) /\ tree[Root] # "absent" /\ phase \in {"factory", "blacklist"} /\ nmut = 0) => nmut' = 0]_vars

\* after any interruption a later complete run restores the factory files (Restored is checked on
\* every complete run, whatever crashes came before it)
=============================================================================
