-------------------------- MODULE LifecycleHistTrace --------------------------
(* C16 trace validation: race reports and isolation runs *)
EXTENDS LifecycleHist
CONSTANT TraceFile
Trace == ndJsonDeserialize(TraceFile)
VARIABLES l, allviol, classes
INSTANCE CaseTrace
=============================================================================
