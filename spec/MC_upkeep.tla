------------------------------ MODULE MC_upkeep ------------------------------
(* Exhaustive configuration for Upkeep.tla: a template with two factory directories and three   *)
(* factory files; every combination of file states and missing directories; crash after every    *)
(* mutation; up to MaxRuns runs.                                                                 *)
EXTENDS Upkeep

T == << [path |-> "hidi-config", kind |-> "dir", factory |-> FALSE],
        [path |-> "hidi-config/device blacklist.txt", kind |-> "file", factory |-> FALSE],
        [path |-> "hidi-config/factory", kind |-> "dir", factory |-> TRUE],
        [path |-> "hidi-config/factory/README", kind |-> "file", factory |-> TRUE],
        [path |-> "hidi-config/factory/gamepad", kind |-> "dir", factory |-> TRUE],
        [path |-> "hidi-config/factory/gamepad/a.toml", kind |-> "file", factory |-> TRUE],
        [path |-> "hidi-config/factory/gamepad/b.toml", kind |-> "file", factory |-> TRUE],
        [path |-> "hidi-config/hidi.toml", kind |-> "file", factory |-> FALSE],
        [path |-> "hidi-config/user", kind |-> "dir", factory |-> FALSE],
        [path |-> "hidi-config/user/README.md", kind |-> "file", factory |-> FALSE] >>
U == {"hidi-config/user/mine.toml", "hidi-config/factory/gamepad/extra.toml"}

FileStates == {"absent", "intact", "empty", "partial", "modified", "longer"}

ParentOf(p) == CASE p = "hidi-config/factory/README" -> "hidi-config/factory"
                 [] p = "hidi-config/factory/gamepad" -> "hidi-config/factory"
                 [] p \in {"hidi-config/factory/gamepad/a.toml", "hidi-config/factory/gamepad/b.toml", "hidi-config/factory/gamepad/extra.toml"}
                      -> "hidi-config/factory/gamepad"
                 [] p \in {"hidi-config/user/README.md", "hidi-config/user/mine.toml"} -> "hidi-config/user"
                 [] OTHER -> "hidi-config"

\* raw choice of states, then everything below a missing directory is missing
Raw(root, fdir, gdir, udir, fs, bl, ht) ==
  [p \in Paths \cup U |->
     CASE p = "hidi-config" -> IF root THEN "dir" ELSE "absent"
       [] p = "hidi-config/factory" -> IF fdir THEN "dir" ELSE "absent"
       [] p = "hidi-config/factory/gamepad" -> IF gdir THEN "dir" ELSE "absent"
       [] p = "hidi-config/user" -> IF udir THEN "dir" ELSE "absent"
       [] p \in FactoryFiles -> fs[p]
       [] p = "hidi-config/device blacklist.txt" -> IF bl THEN "user" ELSE "absent"
       [] p = "hidi-config/hidi.toml" -> IF ht THEN "user" ELSE "absent"
       [] OTHER -> "user"]

RECURSIVE Gone(_, _)
Gone(t, p) == IF p = "hidi-config" THEN t[p] = "absent" ELSE t[p] = "absent" \/ Gone(t, ParentOf(p))
Settle(t) == [p \in DOMAIN t |-> IF p # "hidi-config" /\ Gone(t, ParentOf(p)) THEN "absent" ELSE t[p]]

InitTrees ==
  {Settle(Raw(root, fdir, gdir, udir, fs, bl, ht)) :
     root \in BOOLEAN, fdir \in BOOLEAN, gdir \in BOOLEAN, udir \in BOOLEAN, fs \in [FactoryFiles -> FileStates],
     bl \in BOOLEAN, ht \in BOOLEAN}

Init == /\ tree \in InitTrees /\ phase = "start" /\ idx = 1 /\ pend = "none" /\ mut = NoMut /\ runs = 0 /\ nmut = 0
        /\ rootWasAbsent = FALSE
Spec == Init /\ [][Next]_vars

\* user-owned paths: never change (their state is "user" or, when their directory never existed, "absent")
UserFilesKept == \A p \in U \cup ((Paths \ FactoryPaths) \ {"hidi-config", "hidi-config/user"}) :
                    tree[p] \in {"user", "absent", "intact", "empty"}
UserNeverLost == [][\A p \in U \cup (Paths \ FactoryPaths) : tree[p] = "user" => tree'[p] = "user"]_vars
=============================================================================
