--------------------------- MODULE ConfigFileTrace ---------------------------
(* C09 / C10 trace validation: cases recorded by `verifh parse` and the cmd/hidi verif entry *)
EXTENDS ConfigFile
CONSTANT TraceFile
Trace == ndJsonDeserialize(TraceFile)
VARIABLES l, allviol, classes
INSTANCE CaseTrace
=============================================================================
