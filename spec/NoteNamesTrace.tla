--------------------------- MODULE NoteNamesTrace ---------------------------
(* C11 trace validation: cases recorded by `verifh notes` judged by NoteNames!Judge *)
EXTENDS NoteNames
CONSTANT TraceFile
Trace == ndJsonDeserialize(TraceFile)
VARIABLES l, allviol, classes
INSTANCE CaseTrace
=============================================================================
