--------------------------- MODULE HandlerMonitor ---------------------------
(***************************************************************************)
(* Beyond the listed properties: the discovery front end                    *)
(* (input.monitorNewHandlers, internal/pkg/input/manager.go:16-81) that     *)
(* feeds C20's Normalize.  A goroutine lists /dev/input every discoveryRate, *)
(* remembers the event nodes it has seen (`previous`), forgets the ones     *)
(* that are gone, and hands the NEW ones over - as one batch, on an          *)
(* unbuffered channel, with a send that does not look at the context.       *)
(* MonitorNewDevices (manager.go:127-183) consumes the batches until its    *)
(* context is cancelled and then stops reading.                             *)
(*                                                                         *)
(* What is checked here (design level) and on the real function (history    *)
(* level, HandlerMonitorHist): a node present for long enough is reported,  *)
(* a node is not reported twice while it stays, a node that went away and   *)
(* came back is reported again, nothing else is reported, and the stream    *)
(* ends after cancellation PROVIDED the consumer keeps reading.             *)
(* ConsumerStopsAtCancel = TRUE is the code's actual consumer: StreamEnds   *)
(* then fails - the monitor goroutine stays blocked in its send for ever    *)
(* when a new node shows up in the very scan before the cancellation        *)
(* (a goroutine leaked per configuration reload; recorded in DESIGN.md as   *)
(* an observation, no listed property covers it).                           *)
(***************************************************************************)
EXTENDS Integers, Sequences, FiniteSets, TLC

CONSTANTS Names,                  \* event nodes that may exist
          MaxChanges,             \* how often the environment adds / removes a node
          ConsumerStopsAtCancel   \* TRUE: the consumer stops reading once the context is cancelled (MonitorNewDevices)

VARIABLES dir,        \* nodes present in /dev/input
          prev,       \* the monitor's memory
          pc,         \* "scan" | "send" | "wait" | "done"
          batch,      \* the batch being handed over
          reports,    \* sequence of batches the consumer received
          changes, cancelled,
          absentSeen  \* history: nodes whose absence the monitor has witnessed since it last reported them (or never reported)

vars == <<dir, prev, pc, batch, reports, changes, cancelled, absentSeen>>

Init == /\ dir \in SUBSET Names /\ prev = {} /\ pc = "scan" /\ batch = {} /\ reports = <<>> /\ changes = 0
        /\ cancelled = FALSE /\ absentSeen = Names

Add(n) == /\ changes < MaxChanges /\ n \notin dir /\ dir' = dir \cup {n} /\ changes' = changes + 1
          /\ UNCHANGED <<prev, pc, batch, reports, cancelled, absentSeen>>
Remove(n) == /\ changes < MaxChanges /\ n \in dir /\ dir' = dir \ {n} /\ changes' = changes + 1
             /\ UNCHANGED <<prev, pc, batch, reports, cancelled, absentSeen>>
Cancel == /\ ~cancelled /\ cancelled' = TRUE /\ UNCHANGED <<dir, prev, pc, batch, reports, changes, absentSeen>>

\* os.ReadDir + the two set differences + the update of `previous`
Scan == /\ pc = "scan"
        /\ LET new == dir \ prev IN
             /\ prev' = dir
             /\ batch' = new
             /\ pc' = IF new = {} THEN "wait" ELSE "send"
             /\ absentSeen' = absentSeen \cup (Names \ dir)
        /\ UNCHANGED <<dir, reports, changes, cancelled>>

\* newHandlers <- newEvents : rendezvous with the consumer, no alternative
Send == /\ pc = "send" /\ ~(ConsumerStopsAtCancel /\ cancelled)
        /\ reports' = Append(reports, batch) /\ pc' = "wait"
        /\ absentSeen' = absentSeen \ batch
        /\ UNCHANGED <<dir, prev, batch, changes, cancelled>>

\* select { <-ctx.Done(): break root; <-time.After(rate): }
WaitTick == /\ pc = "wait" /\ pc' = "scan" /\ UNCHANGED <<dir, prev, batch, reports, changes, cancelled, absentSeen>>
WaitDone == /\ pc = "wait" /\ cancelled /\ pc' = "done" /\ UNCHANGED <<dir, prev, batch, reports, changes, cancelled, absentSeen>>

Monitor == Scan \/ Send \/ WaitTick \/ WaitDone
Next == (\E n \in Names : Add(n) \/ Remove(n)) \/ Cancel \/ Monitor
\* the timer fires, the consumer (while it reads) takes what is offered; after cancellation the select must
\* eventually take the Done branch (both branches ready: Go picks at random, fairly)
Spec == Init /\ [][Next]_vars /\ WF_vars(Scan) /\ WF_vars(Send) /\ WF_vars(WaitTick) /\ SF_vars(WaitDone)

-----------------------------------------------------------------------------
Reported(n) == \E i \in 1..Len(reports) : n \in reports[i]
\* nothing is reported that is not a new node: a reported node was absent (or never reported) before
OnlyNew == [][pc = "send" /\ pc' = "wait" => batch \subseteq absentSeen]_vars
\* what is handed over was present when it was listed
OnlyPresentAtScan == [][pc = "scan" /\ pc' = "send" => batch' \subseteq dir]_vars
\* a node that stays is reported (once the environment is quiet and nobody cancelled)
EventuallyReported == \A n \in Names : (changes = MaxChanges /\ n \in dir /\ ~cancelled) ~> (cancelled \/ n \in prev)
InMemoryMeansHandedOver == \A n \in Names : (n \in prev /\ pc \in {"wait", "scan", "done"}) => Reported(n)
\* the stream ends after cancellation
StreamEnds == cancelled ~> (pc = "done")
=============================================================================
