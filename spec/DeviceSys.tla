----------------------------- MODULE DeviceSys -----------------------------
(***************************************************************************)
(* The device engine as a transition system, its receiver-side observers   *)
(* and the listed properties C01-C08, C13, C14 as named predicates.         *)
(*                                                                         *)
(* One step record X describes one processed input:                        *)
(*   in   the input,  o  the bytes that went onto the wire in that step,    *)
(*   sg   number of termination signals raised in the step,                 *)
(*   lst  Device.State() as logged after the step (or NoLst),               *)
(*   pre / post  the abstract state before / after (post = Apply(..).s),    *)
(*   br   the branch of the code the model says ran, exp/cmp its prediction,*)
(*   and the observers before (0) and after (1) the step.                   *)
(* Every predicate is a function of X only.  In model checking o is the     *)
(* prediction; in trace validation o, sg and lst come from the real code,   *)
(* so the predicates judge what the code did.                               *)
(***************************************************************************)
EXTENDS Device

VARIABLES
  cfg,      \* configuration (constant during one device life)
  st,       \* implementation-shaped state, see Device!InitState
  out,      \* wire output of the last step
  lastIn,   \* last input
  lastBr,   \* branch taken by the last step
  snd,      \* receiver: set of <<ch, note>> sounding
  ccv,      \* receiver: <<ch, cc>> -> last value
  pb,       \* receiver: ch -> last 14-bit pitch-bend value
  pairAt,   \* key -> <<ch, note>> its press put on the wire (or was entitled to)
  apairAt,  \* <<axis, dir>> -> <<ch, note>> the axis direction put on the wire
  pos,      \* axis -> last raw position fed
  lastTx,   \* axis -> <<raw, composite receiver value>> of its last transmitted event
  hap,      \* [on : a panic happened in this life, keys : keys held at a panic and not released since,
            \*  axonly : only axis events so far (no key has been touched in this life)]
  viol      \* names of the predicates that were false in the last step

vars == <<cfg, st, out, lastIn, lastBr, snd, ccv, pb, pairAt, apairAt, pos, lastTx, hap, viol>>

\* the view for model checking: without the output-only variables (and the constant cfg)
View == <<st, snd, ccv, pb, pairAt, apairAt, pos, lastTx, hap, viol>>

\* the projection the tour graph is built on: the implementation-shaped state alone
ViewSt == st

NoLst == [none |-> TRUE]

-----------------------------------------------------------------------------
(* observers of analog key emulation                                        *)

AxisDef(c, s, a) == c.maps[s.map].axes[a]
AxisIsType(c, s, a, t) == a \in AxesOf(c, s.map) /\ AxisDef(c, s, a).type = t

\* position the type-specific code works with: shaped, flipped, and for key / action /
\* pitch / bidirectional-cc types on unsigned axes mapped onto [-1, 1]
WorkPos(c, s, a, raw) ==
  LET ad == AxisDef(c, s, a)
      info == c.axinfo[a]
      v == Flipped(info, ad, ShapedOf(info, ad, raw))
  IN IF CanNeg(info, ad) THEN v ELSE Twice1(v)

DirOf(v) == IF RGeHalf(v) THEN "pos" ELSE IF RLeMinusHalf(v) THEN "neg" ELSE "none"

APairNext(c, s, ap, in, o, processed) ==
  IF in.ev = "axis" /\ processed /\ AxisIsType(c, s, in.a, "key") THEN
    LET offs == {PairOf(o[i]) : i \in NoteOffs(o)}
        kept == [id \in {x \in DOMAIN ap : ~(x[1] = in.a /\ ap[x] \in offs)} |-> ap[id]]
        d    == DirOf(WorkPos(c, s, in.a, in.raw))
        ons  == NoteOns(o)
    IN IF ons # {} /\ d # "none"
         THEN Put(kept, <<in.a, d>>, PairOf(o[CHOOSE i \in ons : \A j \in ons : j <= i]))
         ELSE kept
  ELSE IF in.ev = "disconnect" THEN <<>>
  ELSE ap

\* Which emulated key of an axis the user is holding - judged from the positions reported and the mapping in
\* force when each was reported, never from what the device sent.  Centre zone: none.  Deflected to a side
\* that has a note: that side.  Deflected to a side WITHOUT a note (an unsigned trigger at its released end,
\* a stick pushed to its unassigned side): none - unless that very side was already held, from a mapping that
\* gave it a note (the user has not let go).  Hysteresis gap 49..50 %, filtered reports, and reports while
\* the axis does not emulate keys: unchanged.
HeldOf(p, a) == IF a \in DOMAIN p THEN p[a].held ELSE "none"
HeldNext(c, s, p, in, processed) ==
  IF ~(processed /\ AxisIsType(c, s, in.a, "key")) THEN HeldOf(p, in.a)
  ELSE LET w == WorkPos(c, s, in.a, in.raw)
           d == DirOf(w)
       IN IF RInCentre(w) THEN "none"
          ELSE IF d = "pos" THEN "pos"
          ELSE IF d = "neg" THEN (IF AxisDef(c, s, in.a).bidi \/ HeldOf(p, in.a) = "neg" THEN "neg" ELSE "none")
          ELSE HeldOf(p, in.a)

PairNext(c, pa, in, r, o) ==
  IF in.ev = "press" /\ ~IsActionKey(c, in.k) THEN
    LET ons == NoteOns(o)
    IN IF ons # {} THEN Put(pa, in.k, PairOf(o[CHOOSE i \in ons : \A j \in ons : j <= i]))
       ELSE IF r.br = "NoteOn" THEN Put(pa, in.k, r.s.trk[in.k])
       ELSE Drop(pa, in.k)
  ELSE IF in.ev = "release" THEN Drop(pa, in.k)
  ELSE IF in.ev = "disconnect" THEN <<>>
  ELSE pa

\* composite receiver value of a controller / pitch axis (for monotonicity)
Composite(c, s, a, cc1, pb1) ==
  LET ad == AxisDef(c, s, a)
      ch == (s.chan + ad.off) % 16
      chN == (s.chan + ad.offNeg) % 16
  IN CASE ad.type = "pitch_bend" -> IF ch \in DOMAIN pb1 THEN pb1[ch] ELSE 8192
       [] ad.type = "cc" /\ ad.bidi -> Get0(cc1, <<ch, ad.cc>>) - Get0(cc1, <<chN, ad.ccNeg>>)
       [] ad.type = "cc" -> Get0(cc1, <<ch, ad.cc>>)
       [] OTHER -> 0

-----------------------------------------------------------------------------
(* The step record                                                          *)

StepRec(in, r, o, sg, lst) ==
  [ in |-> in, o |-> o, sg |-> sg, lst |-> lst, c |-> cfg,
    pre |-> st, post |-> r.s, br |-> r.br, exp |-> r.o, cmp |-> r.cmp,
    snd0 |-> snd, snd1 |-> HearSnd(snd, o),
    ccv0 |-> ccv, ccv1 |-> HearCC(ccv, o),
    pb0 |-> pb, pb1 |-> HearPB(pb, o),
    pair0 |-> pairAt, apair0 |-> apairAt,
    apair1 |-> APairNext(cfg, st, apairAt, in, o,
                         r.br \notin {"AxisUndefined", "AxisDuplicate", "AxisLearningGate"}),
    pos1 |-> IF in.ev = "axis"
               THEN Put(pos, in.a, [raw |-> in.raw,
                                    held |-> HeldNext(cfg, st, pos, in,
                                                      r.br \notin {"AxisUndefined", "AxisDuplicate", "AxisLearningGate"})])
               ELSE pos,
    pos0 |-> pos, tx0 |-> lastTx, hap0 |-> hap ]

IsKeyIn(X)     == X.in.ev \in {"press", "release"}
IsPressIn(X)   == X.in.ev = "press"
IsReleaseIn(X) == X.in.ev = "release"
IsAxisIn(X)    == X.in.ev = "axis"
\* a press while the whole exit sequence is down is swallowed (C14; O4 for k outside the sequence)
Swallowed(X)   == IsPressIn(X) /\ ExitComplete(X.c, X.pre.held \cup {X.in.k})
\* the press / release of a key that plays a note under the state before the step
NotePress(X)   == IsPressIn(X) /\ ~Swallowed(X) /\ ~IsActionKey(X.c, X.in.k) /\ X.in.k \in KeysOf(X.c, X.pre.map)
NoteRelease(X) == IsReleaseIn(X) /\ ~IsActionKey(X.c, X.in.k)
ActionIn(X)    == IsKeyIn(X) /\ IsActionKey(X.c, X.in.k)
ActionOf(X)    == X.c.actions[X.in.k]

NoteShape(o) ==
  LET ns == SelectSeq(o, LAMBDA m : Len(m) = 3 /\ (IsOn(m) \/ IsOff(m)))
  IN [i \in 1..Len(ns) |-> <<Kind(ns[i]), ChanOf(ns[i]), ns[i][2]>>]
ShapeOf(e) == [i \in 1..Len(e) |-> <<Kind(e[i]), ChanOf(e[i]), e[i][2]>>]

-----------------------------------------------------------------------------
(* C01  No stuck notes                                                      *)

\* every key-emulating axis is let go (HeldNext above)
AxesAtRest(X) == \A a \in DOMAIN X.pos1 : X.pos1[a].held = "none"

C01_Quiescent(X) ==
  (X.post.phase = "running" /\ X.post.held = {} /\ AxesAtRest(X)) => X.snd1 = {}

C01_DisconnectSilent(X) == X.in.ev = "disconnect" => X.snd1 = {}

-----------------------------------------------------------------------------
(* C02  Release pinned to the press; state actions are silent               *)

C02_ReleasePinned(X) ==
  NoteRelease(X) =>
    \A i \in NoteOffs(X.o) : X.in.k \in DOMAIN X.pair0 /\ PairOf(X.o[i]) = X.pair0[X.in.k]

\* the release of the only holder of what its press put on the wire (any holder when collisions
\* are not managed) produces that Note Off -- also after a switch to a mapping without the key
C02_ReleaseEmits(X) ==
  (NoteRelease(X) /\ X.in.k \in DOMAIN X.pair0 /\ X.in.k \in DOMAIN X.pre.trk
     /\ (X.c.mode = "off" \/ Get0(X.pre.cnt, X.pre.trk[X.in.k]) = 1)) =>
    \E i \in NoteOffs(X.o) : PairOf(X.o[i]) = X.pair0[X.in.k]

C02_StateActionsSilent(X) ==
  (ActionIn(X) /\ ActionOf(X) # "panic") => X.o = <<>>

-----------------------------------------------------------------------------
(* C03  Collision modes                                                     *)

C03_PressRule(X) ==
  (NotePress(X) /\ KeyPitch(X.c, X.pre, X.in.k) \in 0..127) =>
     LET p == <<KeyChan(X.c, X.pre, X.in.k), KeyPitch(X.c, X.pre, X.in.k)>>
     IN NoteShape(X.o) = ShapeOf(PressOut(X.c.mode, Get0(X.pre.cnt, p), p, 0))

C03_ReleaseRule(X) ==
  (NoteRelease(X) /\ X.in.k \in DOMAIN X.pre.trk) =>
     LET p == X.pre.trk[X.in.k]
     IN NoteShape(X.o) = ShapeOf(ReleaseOut(X.c.mode, Get0(X.pre.cnt, p), p))

-----------------------------------------------------------------------------
(* C04  Transposition, channel arithmetic, state actions                    *)

C04_PressPitch(X) ==
  NotePress(X) =>
     LET n == KeyPitch(X.c, X.pre, X.in.k)
         ch == KeyChan(X.c, X.pre, X.in.k)
     IN IF n \in 0..127
          THEN /\ \A i \in NoteOns(X.o) : X.o[i] = NoteOnMsg(ch, n, X.c.vel)
               \* "a key press sounds ...": the first holder's press does send the Note On, in every collision mode
               /\ (Get0(X.pre.cnt, <<ch, n>>) = 0 => NoteOns(X.o) # {})
          ELSE X.o = <<>>

\* presses of keys that play nothing produce nothing
C04_SilentPress(X) ==
  (IsPressIn(X) /\ ~Swallowed(X) /\ ~IsActionKey(X.c, X.in.k) /\ X.in.k \notin KeysOf(X.c, X.pre.map))
     => X.o = <<>>

\* the playing state after the step is the one the statement defines from the input history
C04_State(X) ==
  (X.lst # NoLst /\ X.in.ev # "disconnect") =>
     /\ X.lst.oct = X.post.oct /\ X.lst.semi = X.post.semi
     /\ X.lst.chan = X.post.chan /\ X.lst.map = X.c.maps[X.post.map].name

-----------------------------------------------------------------------------
(* C05  Well-formed messages                                                *)

C05_WellFormed(X) == \A i \in 1..Len(X.o) : WellFormedMsg(X.o[i])

-----------------------------------------------------------------------------
(* C06  Analog transfer function                                            *)

Transmitted(X) == IsAxisIn(X) /\ X.o # <<>>

\* |v - n*q| <= 1 for the rational q = q[1]/q[2] in [0,1]
Within1(v, n, q) ==
  LET fl == MulDivFloor(n, q[1], q[2])
      ex == MulDivExact(n, q[1], q[2])
  IN v >= (IF ex THEN fl ELSE fl + 1) - 1 /\ v <= fl + 1

CCValueOK(v, q) ==
  /\ Within1(v, 127, q)
  /\ (q[1] = 0 => v = 0)
  /\ (q[1] = q[2] => v = 127)
  /\ (2 * q[1] = q[2] => v \in {63, 64})

\* The receiver-side reading of "for every position ... the transmitted value is ...": after EVERY
\* processed axis event the receiver holds the value of the current position (an event the engine
\* chose not to transmit must not leave the receiver stale).  Nothing received at all is right only
\* while the axis has never left its rest position.  Judged in lives made of axis events only
\* (channel, mapping and cc-learning actions move or gate the controller by design: C07).
RecvJudged(X) == IsAxisIn(X) /\ X.hap0.axonly

C06_Controller(X) ==
  (RecvJudged(X) /\ AxisIsType(X.c, X.pre, X.in.a, "cc")) =>
     LET ad == AxisDef(X.c, X.pre, X.in.a)
         info == X.c.axinfo[X.in.a]
         sh == ShapedOf(info, ad, X.in.raw)
         v == Flipped(info, ad, sh)
         cn == CanNeg(info, ad)
         kp == <<(X.pre.chan + ad.off) % 16, ad.cc>>
         kn == <<(X.pre.chan + ad.offNeg) % 16, ad.ccNeg>>
         w == IF cn THEN v ELSE Twice1(v)
         Has(k) == k \in DOMAIN X.ccv1
         \* a bidirectional pair represents one position: the side the stick is not on is at 0
         Quiet(k) == Has(k) => X.ccv1[k] = 0
     IN IF ad.bidi
          THEN IF w[1] < 0
                 THEN (IF Has(kn) THEN CCValueOK(X.ccv1[kn], <<-w[1], w[2]>>) ELSE sh[1] = 0) /\ (kp # kn => Quiet(kp))
                 ELSE (IF Has(kp) THEN CCValueOK(X.ccv1[kp], w) ELSE sh[1] = 0) /\ (kp # kn => Quiet(kn))
          ELSE IF Has(kp) THEN CCValueOK(X.ccv1[kp], IF cn THEN <<v[1] + v[2], 2 * v[2]>> ELSE v) ELSE sh[1] = 0

\* "0-16383 with 8192 as centre": the statement fixes the centre and the ends; between them both the
\* linear map 16383*(b+1)/2 and the two-segment map through 8192 are readings of "the exact value"
\* (they differ by at most 1/2), so a value within one step of either is accepted
C06_PitchBend(X) ==
  (RecvJudged(X) /\ AxisIsType(X.c, X.pre, X.in.a, "pitch_bend")) =>
     LET ad == AxisDef(X.c, X.pre, X.in.a)
         info == X.c.axinfo[X.in.a]
         b == WorkPos(X.c, X.pre, X.in.a, X.in.raw)
         ch == (X.pre.chan + ad.off) % 16
     IN IF ch \notin DOMAIN X.pb1 THEN ShapedOf(info, ad, X.in.raw)[1] = 0
        ELSE LET v == X.pb1[ch]
             IN /\ \/ Within1(v, 16383, <<b[1] + b[2], 2 * b[2]>>)
                   \/ IF b[1] < 0 THEN Within1(8192 - v, 8192, <<-b[1], b[2]>>)
                                  ELSE Within1(v - 8192, 8191, b)
                /\ (b[1] = 0 => v = 8192)
                /\ (b[1] = b[2] => v = 16383)
                /\ (b[1] = -b[2] => v = 0)

\* In lives with mapping / channel / cc-learning actions the receiver-side reading above is not judged; what the
\* device does transmit for an axis report is: every message of the step on the axis's own controller (pitch wheel)
\* carries the value of the reported position under the definition in force NOW - dead zone, flip and range of the
\* current mapping - and the message for the side the stick is not on carries 0.
C06_SentValue(X) ==
  (Transmitted(X) /\ X.in.a \in AxesOf(X.c, X.pre.map) /\ AxisDef(X.c, X.pre, X.in.a).type \in {"cc", "pitch_bend"}) =>
     LET ad == AxisDef(X.c, X.pre, X.in.a)
         info == X.c.axinfo[X.in.a]
         v == Flipped(info, ad, ShapedOf(info, ad, X.in.raw))
         cn == CanNeg(info, ad)
         kp == <<(X.pre.chan + ad.off) % 16, ad.cc>>
         kn == <<(X.pre.chan + ad.offNeg) % 16, ad.ccNeg>>
         w == IF cn THEN v ELSE Twice1(v)
         b == WorkPos(X.c, X.pre, X.in.a, X.in.raw)
         CCs(k) == {i \in 1..Len(X.o) : IsCC(X.o[i]) /\ PairOf(X.o[i]) = k}
     IN IF ad.type = "pitch_bend"
          THEN \A i \in 1..Len(X.o) : (IsPB(X.o[i]) /\ ChanOf(X.o[i]) = (X.pre.chan + ad.off) % 16) =>
                 LET pv == X.o[i][2] + 128 * X.o[i][3]
                 IN \/ Within1(pv, 16383, <<b[1] + b[2], 2 * b[2]>>)
                    \/ IF b[1] < 0 THEN Within1(8192 - pv, 8192, <<-b[1], b[2]>>) ELSE Within1(pv - 8192, 8191, b)
          ELSE IF ad.bidi
            THEN kp # kn =>
                   IF w[1] < 0 THEN /\ \A i \in CCs(kn) : CCValueOK(X.o[i][3], <<-w[1], w[2]>>)
                                    /\ \A i \in CCs(kp) : X.o[i][3] = 0
                   ELSE /\ \A i \in CCs(kp) : CCValueOK(X.o[i][3], w)
                        /\ \A i \in CCs(kn) : X.o[i][3] = 0
            ELSE \A i \in CCs(kp) : CCValueOK(X.o[i][3], IF cn THEN <<v[1] + v[2], 2 * v[2]>> ELSE v)

\* ... and an axis report that is processed (ProcessedAxis below: not a repetition of the axis' previous position, not
\* gated by cc-learning - decided from the inputs alone) IS transmitted, whatever happened between the reports: a stick
\* let go after a mapping switch sends its rest value
C06_Transmits(X) ==
  (IsAxisIn(X) /\ X.br \notin {"AxisUndefined", "AxisDuplicate", "AxisLearningGate"}
     /\ X.in.a \in AxesOf(X.c, X.pre.map) /\ AxisDef(X.c, X.pre, X.in.a).type \in {"cc", "pitch_bend"}) => X.o # <<>>

\* consecutive transmitted events of one axis: the receiver value moves with the raw position
C06_Monotone(X) ==
  (Transmitted(X) /\ X.in.a \in AxesOf(X.c, X.pre.map)
     /\ AxisDef(X.c, X.pre, X.in.a).type \in {"cc", "pitch_bend"} /\ X.in.a \in DOMAIN X.tx0
     /\ X.tx0[X.in.a][3] = X.pre.map /\ X.tx0[X.in.a][4] = X.pre.chan) =>
     LET ad == AxisDef(X.c, X.pre, X.in.a)
         g1 == Composite(X.c, X.pre, X.in.a, X.ccv1, X.pb1)
         r0 == X.tx0[X.in.a][1]
         g0 == X.tx0[X.in.a][2]
         up == IF ad.flip THEN X.in.raw < r0 ELSE X.in.raw > r0
         dn == IF ad.flip THEN X.in.raw > r0 ELSE X.in.raw < r0
     IN (up => g1 >= g0) /\ (dn => g1 <= g0)

-----------------------------------------------------------------------------
(* C07  Bidirectional controllers                                           *)

BidiAxes(c, s) == {a \in AxesOf(c, s.map) : AxisDef(c, s, a).type = "cc" /\ AxisDef(c, s, a).bidi}

C07_Exclusive(X) ==
  IsAxisIn(X) =>
    \A a \in BidiAxes(X.c, X.pre) :
       LET ad == AxisDef(X.c, X.pre, a)
           ch == (X.pre.chan + ad.off) % 16
           chN == (X.pre.chan + ad.offNeg) % 16
       IN (<<ch, ad.cc>> # <<chN, ad.ccNeg>>) =>
            ~(Get0(X.ccv1, <<ch, ad.cc>>) > 0 /\ Get0(X.ccv1, <<chN, ad.ccNeg>>) > 0)

\* "after every processed axis event": processed = not filtered as a repetition of the last value and not held back
\* by cc-learning (the two filters the engine has, decided here from the inputs alone) - NOT "whatever the device
\* chose to answer": an event the device drops for another reason leaves the receiver on the wrong side
ProcessedAxis(X) == IsAxisIn(X) /\ X.br \notin {"AxisUndefined", "AxisDuplicate", "AxisLearningGate"}

C07_SideMatches(X) ==
  (ProcessedAxis(X) /\ X.in.a \in BidiAxes(X.c, X.pre)) =>
     LET ad == AxisDef(X.c, X.pre, X.in.a)
         w == WorkPos(X.c, X.pre, X.in.a, X.in.raw)
         ch == (X.pre.chan + ad.off) % 16
         chN == (X.pre.chan + ad.offNeg) % 16
     IN (<<ch, ad.cc>> # <<chN, ad.ccNeg>>) =>
          /\ (w[1] <= 0 => Get0(X.ccv1, <<ch, ad.cc>>) = 0)
          /\ (w[1] >= 0 => Get0(X.ccv1, <<chN, ad.ccNeg>>) = 0)

C07_LearningGate(X) ==
  (Transmitted(X) /\ X.pre.learning /\ X.in.a \in AxesOf(X.c, X.pre.map)
     /\ AxisDef(X.c, X.pre, X.in.a).type = "cc") =>
     LET ad == AxisDef(X.c, X.pre, X.in.a)
         info == X.c.axinfo[X.in.a]
     IN ~RLtHalfAbs(Flipped(info, ad, ShapedOf(info, ad, X.in.raw)))

-----------------------------------------------------------------------------
(* C08  Analog key emulation                                                *)

KeyAxisStep(X) == IsAxisIn(X) /\ AxisIsType(X.c, X.pre, X.in.a, "key")
                  /\ X.br \notin {"AxisDuplicate", "AxisLearningGate"}

C08_On(X) ==
  KeyAxisStep(X) =>
    LET ad == AxisDef(X.c, X.pre, X.in.a)
        d == DirOf(WorkPos(X.c, X.pre, X.in.a, X.in.raw))
        note == IF d = "pos" THEN ad.note ELSE ad.noteNeg
        off == IF d = "pos" THEN ad.off ELSE ad.offNeg
        n == note + 12 * X.pre.oct + X.pre.semi
    IN (d # "none" /\ (d = "pos" \/ ad.bidi) /\ <<X.in.a, d>> \notin DOMAIN X.apair0 /\ n \in 0..127)
         => \E i \in NoteOns(X.o) : PairOf(X.o[i]) = <<(X.pre.chan + off) % 16, n>>

\* a Note On appears only for the direction the stick is in, with that direction's note
C08_OnlyConfigured(X) ==
  KeyAxisStep(X) =>
    LET ad == AxisDef(X.c, X.pre, X.in.a)
        d == DirOf(WorkPos(X.c, X.pre, X.in.a, X.in.raw))
        note == IF d = "pos" THEN ad.note ELSE ad.noteNeg
        off == IF d = "pos" THEN ad.off ELSE ad.offNeg
        n == note + 12 * X.pre.oct + X.pre.semi
    IN \A i \in NoteOns(X.o) :
         /\ d # "none" /\ (d = "pos" \/ ad.bidi)
         /\ PairOf(X.o[i]) = <<(X.pre.chan + off) % 16, n>>

C08_Off(X) ==
  KeyAxisStep(X) =>
    LET d == DirOf(WorkPos(X.c, X.pre, X.in.a, X.in.raw))
        centre == RInCentre(WorkPos(X.c, X.pre, X.in.a, X.in.raw))
    IN \A dd \in {"pos", "neg"} :
         (<<X.in.a, dd>> \in DOMAIN X.apair0 /\ (centre \/ (d # "none" /\ d # dd)))
            => \E i \in NoteOffs(X.o) : PairOf(X.o[i]) = X.apair0[<<X.in.a, dd>>]

C08_Exclusive(X) ==
  KeyAxisStep(X) => Cardinality({id \in DOMAIN X.apair1 : id[1] = X.in.a}) <= 1

\* ... and only when it is due: the direction's note goes off in the centre zone (below 49 %) or when the other
\* direction is reached - not in the band between 49 % and 50 %, not while the deflection lasts
C08_Pinned(X) ==
  KeyAxisStep(X) =>
    LET d == DirOf(WorkPos(X.c, X.pre, X.in.a, X.in.raw))
        centre == RInCentre(WorkPos(X.c, X.pre, X.in.a, X.in.raw))
    IN /\ \A i \in NoteOffs(X.o) :
            \E dd \in {"pos", "neg"} : /\ <<X.in.a, dd>> \in DOMAIN X.apair0 /\ X.apair0[<<X.in.a, dd>>] = PairOf(X.o[i])
                                       /\ (centre \/ (d # "none" /\ d # dd))
       \* one Note On per deflection: while a direction's note is on (whatever transposition, channel or mapping
       \* did meanwhile) further reports in that direction start nothing - otherwise no Note Off could match "the" Note On
       /\ ((d # "none" /\ <<X.in.a, d>> \in DOMAIN X.apair0) => NoteOns(X.o) = {})

-----------------------------------------------------------------------------
(* C13  Panic                                                               *)

PanicStep(X) == IsPressIn(X) /\ ~Swallowed(X) /\ ActionIn(X) /\ ActionOf(X) = "panic" /\ X.br = "Panic"

PanicMsgs(X) ==
    /\ CCMsg(X.pre.chan, AllNotesOff, 0) \in {X.o[i] : i \in 1..Len(X.o)}
    /\ {<<X.pre.chan, n>> : n \in 0..127} \subseteq {PairOf(X.o[i]) : i \in NoteOffs(X.o)}
    /\ NoteOns(X.o) = {}
    /\ \A i \in 1..Len(X.o) : IsOff(X.o[i]) \/ X.o[i] = CCMsg(X.pre.chan, AllNotesOff, 0)

C13_PanicOut(X) == PanicStep(X) => PanicMsgs(X)

\* panic triggered by an axis that emulates actions: every time the axis ENTERS the side that carries panic -
\* its previous report (whatever mapping was in force then) lay elsewhere under the present definition - the
\* panic messages go out.  Further reports within the side are not triggers (the code fires again; not demanded).
C13_PanicAxis(X) ==
  (IsAxisIn(X) /\ AxisIsType(X.c, X.pre, X.in.a, "action") /\ X.br \in {"AxisActionNeg", "AxisActionPos"}) =>
    LET ad == AxisDef(X.c, X.pre, X.in.a)
        d == DirOf(WorkPos(X.c, X.pre, X.in.a, X.in.raw))
        prevd == IF X.in.a \in DOMAIN X.pos0 THEN DirOf(WorkPos(X.c, X.pre, X.in.a, X.pos0[X.in.a].raw)) ELSE "none"
        act == IF d = "pos" THEN ad.act ELSE ad.actNeg
    IN (act = "panic" /\ prevd # d) => PanicMsgs(X)

\* panic does not move the playing state (so later presses behave as if it had not happened:
\* all later steps are judged against the abstract state, which panic leaves alone)
C13_PanicNeutral(X) ==
  (PanicStep(X) /\ X.lst # NoLst) =>
     /\ X.lst.oct = X.pre.oct /\ X.lst.semi = X.pre.semi /\ X.lst.chan = X.pre.chan
     /\ X.lst.map = X.c.maps[X.pre.map].name

\* after a panic everything goes on exactly as if it had not happened; only the release of a key
\* that was down at the panic may also produce nothing ("at most a redundant Note Off")
C13_AsIfNoPanic(X) ==
  (X.hap0.on /\ IsKeyIn(X)) =>
     /\ IF NoteRelease(X) /\ X.in.k \in X.hap0.keys
          THEN X.o = <<>> \/ (C03_ReleaseRule(X) /\ C02_ReleasePinned(X))
          ELSE /\ C03_PressRule(X) /\ C03_ReleaseRule(X) /\ C04_PressPitch(X) /\ C04_SilentPress(X)
               /\ C02_ReleasePinned(X) /\ C02_ReleaseEmits(X)
     /\ (X.hap0.keys \ {X.in.k} = {} => C01_Quiescent(X))
  \* ... and an emulated key that was held at the panic lets go like any other: once everything is at rest the
  \* receiver is silent (its note may sound on another channel than the one panic silenced), what it sends is its own
  /\ ((X.hap0.on /\ KeyAxisStep(X)) =>
        /\ C08_Pinned(X) /\ C08_OnlyConfigured(X)
        /\ (X.hap0.keys = {} => C01_Quiescent(X)))

-----------------------------------------------------------------------------
(* C14  Exit sequence                                                       *)

C14_Fires(X) ==
  (IsPressIn(X) /\ X.in.k \in ExitSet(X.c) /\ ExitComplete(X.c, X.pre.held \cup {X.in.k})) =>
     /\ X.sg = 1 /\ X.o = <<>>
     /\ (X.lst # NoLst =>
           /\ X.lst.oct = X.pre.oct /\ X.lst.semi = X.pre.semi /\ X.lst.chan = X.pre.chan
           /\ X.lst.map = X.c.maps[X.pre.map].name)

C14_NeverEarly(X) ==
  X.sg > 0 => (IsPressIn(X) /\ ExitComplete(X.c, X.pre.held \cup {X.in.k}))

-----------------------------------------------------------------------------

PredNames == {
  "C01_Quiescent", "C01_DisconnectSilent", "C02_ReleasePinned", "C02_ReleaseEmits", "C02_StateActionsSilent",
  "C03_PressRule", "C03_ReleaseRule", "C04_PressPitch", "C04_SilentPress", "C04_State",
  "C05_WellFormed", "C06_Controller", "C06_PitchBend", "C06_Monotone", "C06_SentValue", "C06_Transmits",
  "C07_Exclusive", "C07_SideMatches", "C07_LearningGate",
  "C08_On", "C08_OnlyConfigured", "C08_Off", "C08_Exclusive", "C08_Pinned",
  "C13_PanicOut", "C13_PanicAxis", "C13_PanicNeutral", "C13_AsIfNoPanic", "C14_Fires", "C14_NeverEarly" }

Pred(n, X) ==
  CASE n = "C01_Quiescent" -> C01_Quiescent(X)
    [] n = "C01_DisconnectSilent" -> C01_DisconnectSilent(X)
    [] n = "C13_PanicAxis" -> C13_PanicAxis(X)
    [] n = "C02_ReleasePinned" -> C02_ReleasePinned(X)
    [] n = "C02_StateActionsSilent" -> C02_StateActionsSilent(X)
    [] n = "C02_ReleaseEmits" -> C02_ReleaseEmits(X)
    [] n = "C03_PressRule" -> C03_PressRule(X)
    [] n = "C03_ReleaseRule" -> C03_ReleaseRule(X)
    [] n = "C04_PressPitch" -> C04_PressPitch(X)
    [] n = "C04_SilentPress" -> C04_SilentPress(X)
    [] n = "C04_State" -> C04_State(X)
    [] n = "C05_WellFormed" -> C05_WellFormed(X)
    [] n = "C06_Controller" -> C06_Controller(X)
    [] n = "C06_PitchBend" -> C06_PitchBend(X)
    [] n = "C06_Monotone" -> C06_Monotone(X)
    [] n = "C06_SentValue" -> C06_SentValue(X)
    [] n = "C06_Transmits" -> C06_Transmits(X)
    [] n = "C07_Exclusive" -> C07_Exclusive(X)
    [] n = "C07_SideMatches" -> C07_SideMatches(X)
    [] n = "C07_LearningGate" -> C07_LearningGate(X)
    [] n = "C08_On" -> C08_On(X)
    [] n = "C08_OnlyConfigured" -> C08_OnlyConfigured(X)
    [] n = "C08_Off" -> C08_Off(X)
    [] n = "C08_Exclusive" -> C08_Exclusive(X)
    [] n = "C08_Pinned" -> C08_Pinned(X)
    [] n = "C13_PanicOut" -> C13_PanicOut(X)
    [] n = "C13_PanicNeutral" -> C13_PanicNeutral(X)
    [] n = "C13_AsIfNoPanic" -> C13_AsIfNoPanic(X)
    [] n = "C14_Fires" -> C14_Fires(X)
    [] n = "C14_NeverEarly" -> C14_NeverEarly(X)

\* key-step predicates are evaluated on key steps only, axis ones on axis steps only (speed)
Relevant(n, X) ==
  CASE X.in.ev = "axis" -> n \notin {"C02_ReleasePinned", "C02_ReleaseEmits", "C13_AsIfNoPanic", "C02_StateActionsSilent", "C03_PressRule", "C03_ReleaseRule",
                                     "C04_PressPitch", "C04_SilentPress", "C13_PanicOut", "C13_PanicNeutral", "C14_Fires"}
    [] X.in.ev \in {"press", "release"} -> n \notin {"C06_Controller", "C06_PitchBend", "C06_Monotone", "C06_SentValue", "C06_Transmits", "C07_Exclusive",
                                     "C07_SideMatches", "C07_LearningGate", "C08_On", "C08_OnlyConfigured", "C08_Off",
                                     "C08_Exclusive", "C08_Pinned"}
    [] OTHER -> n \in {"C01_Quiescent", "C01_DisconnectSilent", "C05_WellFormed", "C14_NeverEarly"}

Failed(X) == {n \in PredNames : Relevant(n, X) /\ ~Pred(n, X)}

-----------------------------------------------------------------------------
(* Transition system                                                        *)

InitWith(c) ==
  /\ cfg = c /\ st = InitState(c) /\ out = <<>>
  /\ lastIn = [ev |-> "init"] /\ lastBr = "Init"
  /\ snd = {} /\ ccv = <<>> /\ pb = <<>> /\ pairAt = <<>> /\ apairAt = <<>> /\ pos = <<>>
  /\ lastTx = <<>> /\ hap = [on |-> FALSE, keys |-> {}, axonly |-> TRUE] /\ viol = {}

\* r : result of Apply for input in;  o, sg, lst : what was observed
Observe(in, r, o, sg, lst) ==
  \E X \in {StepRec(in, r, o, sg, lst)} :     \* (bound once: TLC re-evaluates LET bodies on every use)
     /\ cfg' = cfg /\ st' = r.s /\ out' = o /\ lastIn' = in /\ lastBr' = r.br
     /\ snd' = X.snd1 /\ ccv' = X.ccv1 /\ pb' = X.pb1
     /\ pairAt' = PairNext(cfg, pairAt, in, r, o)
     /\ apairAt' = X.apair1
     /\ pos' = X.pos1
     /\ lastTx' = IF Transmitted(X) /\ in.a \in AxesOf(cfg, st.map)
                     /\ AxisDef(cfg, st, in.a).type \in {"cc", "pitch_bend"}
                    THEN Put(lastTx, in.a, <<in.raw, Composite(cfg, st, in.a, X.ccv1, X.pb1), st.map, st.chan>>)
                    ELSE lastTx
     /\ hap' = IF in.ev \in {"press", "tap"} /\ r.br = "Panic"
                 THEN [on |-> TRUE, keys |-> st.held \ DOMAIN cfg.actions, axonly |-> FALSE]
                 ELSE IF in.ev = "release" THEN [hap EXCEPT !.keys = @ \ {in.k}, !.axonly = FALSE]
                 ELSE IF in.ev \in {"press", "tap"} THEN [hap EXCEPT !.axonly = FALSE] ELSE hap
     /\ viol' = Failed(X)

\* the model's own step: the wire carries the prediction.  Bound is a predicate on the post
\* state that keeps the model finite ("filter inside Next", so every path is a real path)
ModelStep(in, Bound(_)) ==
  /\ st.phase = "running"
  /\ \E r \in {IF in.ev = "tap" THEN ApplyTap(cfg, st, in.k) ELSE Apply(cfg, st, in)} :
        Bound(r.s) /\ Observe(in, r, r.o, r.s.sigs - st.sigs, NoLst)

\* alternation of press and release per key, as the kernel delivers them
Alternates(in) ==
  CASE in.ev = "press"   -> in.k \notin st.held
    [] in.ev = "release" -> in.k \in st.held
    [] in.ev = "tap"     -> in.k \notin st.held
    [] OTHER -> TRUE

-----------------------------------------------------------------------------
(* Invariants for model checking                                            *)

NoViolation == viol = {}

\* implementation invariant that makes C01 inductive: the counter counts the tracked holders
CntConsistent ==
  \A p \in DOMAIN st.cnt \cup {st.trk[k] : k \in DOMAIN st.trk} :
     Get0(st.cnt, p) = Cardinality({k \in DOMAIN st.trk : st.trk[k] = p})

\* every tracked key is physically held; nothing is tracked once processing ended
TrackedAreHeld == DOMAIN st.trk \subseteq st.held
DoneIsEmpty == st.phase = "done" => (st.trk = <<>> /\ st.atrk = <<>> /\ snd = {})

TypeOK ==
  /\ st.chan \in 0..15 /\ st.map \in 1..NMaps(cfg)
  /\ \A k \in DOMAIN st.trk : st.trk[k][1] \in 0..15 /\ st.trk[k][2] \in 0..127
  /\ \A p \in snd : p[1] \in 0..15 /\ p[2] \in 0..127

=============================================================================
