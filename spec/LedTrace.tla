------------------------------- MODULE LedTrace -------------------------------
(***************************************************************************)
(* Trace validation for LED feedback and the observable life cycle (C17,    *)
(* C16): the trace of `verifh led` is a device trace (DeviceTrace) whose     *)
(* lines also carry the last frame the fake OpenRGB server received after   *)
(* the step, MIDI-input steps, and at disconnect the time ProcessEvents      *)
(* took to return, the goroutines of package device still alive, and the     *)
(* final frame.                                                             *)
(***************************************************************************)
EXTENDS Led, Json

CONSTANT TraceFile
Trace == ndJsonDeserialize(TraceFile)
Cfgs  == Trace[1].cfgs

VARIABLES l, allviol, drift, brs, lay, colr

tvars == <<vars, ext, seen, l, allviol, drift, brs, lay, colr>>

Line == Trace[l]

TraceInit ==
  /\ l = 2 /\ allviol = {} /\ drift = {} /\ brs = <<>>
  /\ InitWith(Cfgs[1].cfg) /\ ext = {} /\ seen = <<>> /\ lay = Cfgs[1].layout /\ colr = Cfgs[1].colors

Report(av, dr, b) ==
  l + 1 > Len(Trace) =>
     PrintT(<<"TRACE-RESULT", ToJson([lines |-> Len(Trace), viol |-> av, drift |-> dr, branches |-> [x \in DOMAIN b |-> b[x]]])>>)

\* life-cycle scenarios do not wait for frames: nothing about frames is judged on their lines
Judged(ln) == ~("nowait" \in DOMAIN ln /\ ln.nowait)

FrameOf(ln) == [i \in 1..Len(ln.frame) |-> <<ln.frame[i][1], ln.frame[i][2], ln.frame[i][3]>>]

TraceStart ==
  /\ l <= Len(Trace) /\ Line.ev = "start"
  /\ LET c == Cfgs[Line.c].cfg
         s0 == InitState(c)
         fj == FrameJudgement(c, Cfgs[Line.c].colors, Cfgs[Line.c].layout, s0, {}, FrameOf(Line), <<>>)
         bad == IF ~Judged(Line) THEN {}
                ELSE (IF Line.led_active THEN {<<n, l>> : n \in fj.fail} ELSE {<<"C17_LedActive", l>>})
     IN /\ cfg' = c /\ st' = s0 /\ out' = <<>> /\ lastIn' = [ev |-> "init"] /\ lastBr' = "Init"
        /\ snd' = {} /\ ccv' = <<>> /\ pb' = <<>> /\ pairAt' = <<>> /\ apairAt' = <<>> /\ pos' = <<>>
        /\ lastTx' = <<>> /\ hap' = [on |-> FALSE, keys |-> {}, axonly |-> TRUE] /\ viol' = {}
        /\ ext' = {} /\ seen' = (IF Judged(Line) THEN fj.seen ELSE <<>>) /\ lay' = Cfgs[Line.c].layout /\ colr' = Cfgs[Line.c].colors
        /\ allviol' = allviol \cup bad
        /\ Report(allviol \cup bad, drift, brs)
  /\ l' = l + 1 /\ UNCHANGED <<drift, brs>>

MaxPerPred == 40
AddViol(av, pairs) ==
  av \cup {p \in pairs : Cardinality({v \in av : v[1] = p[1]}) < MaxPerPred}

InputOf(ln) ==
  CASE ln.ev \in {"press", "release"} -> [ev |-> ln.ev, k |-> ln.k]
    [] ln.ev = "disconnect" -> [ev |-> "disconnect"]
    [] ln.ev = "ignored" -> [ev |-> "ignored"]

StateLst(ln) == IF "st" \in DOMAIN ln THEN ln.st ELSE NoLst

TraceKey ==
  /\ l <= Len(Trace) /\ Line.ev \in {"press", "release", "ignored"}
  /\ \E in \in {InputOf(Line)} : \E r \in {Apply(cfg, st, in)} :
        /\ Observe(in, r, Line.o, Line.sg, StateLst(Line))
        /\ LET e2 == IF r.br = "Panic" THEN {} ELSE ext
               fj == FrameJudgement(cfg, colr, lay, r.s, e2, FrameOf(Line), seen)
               nv == AddViol(allviol, {<<n, l>> : n \in viol'}
                     \cup (IF ~Judged(Line) THEN {}
                           ELSE IF Line.led_active THEN {<<n, l>> : n \in fj.fail} ELSE {<<"C17_LedActive", l>>}))
           IN /\ ext' = e2 /\ seen' = (IF Judged(Line) THEN fj.seen ELSE seen) /\ allviol' = nv /\ brs' = Inc(brs, r.br)
              /\ drift' = drift \cup (IF Conforms(Line.o, r) THEN {} ELSE {<<l, "output">>})
              /\ Report(nv, drift', brs')
  /\ l' = l + 1 /\ UNCHANGED <<lay, colr>>

TraceMidiIn ==
  /\ l <= Len(Trace) /\ Line.ev = "midiin"
  /\ LET e2 == MidiInNext(ext, Line.msgin)
         fj == FrameJudgement(cfg, colr, lay, st, e2, FrameOf(Line), seen)
         cleared == (Len(Line.msgin) = 3 /\ (IsOff(Line.msgin) \/ (IsOn(Line.msgin) /\ Line.msgin[3] = 0)))
         nv == AddViol(allviol, (IF ~Judged(Line) THEN {} ELSE IF Line.led_active
                               THEN {<<(IF n = "C17_NoteKeys" /\ cleared THEN "C17_ExternalCleared" ELSE n), l>> : n \in fj.fail}
                               ELSE {<<"C17_LedActive", l>>})
                       \cup (IF Line.o = <<>> THEN {} ELSE {<<"C16_NoCrossTalk", l>>}))
     IN /\ ext' = e2 /\ seen' = (IF Judged(Line) THEN fj.seen ELSE seen) /\ allviol' = nv /\ brs' = Inc(brs, "MidiIn")
        /\ Report(nv, drift, brs')
  /\ l' = l + 1 /\ UNCHANGED <<vars, drift, lay, colr>>

\* the input stream ended: clean-up output (C01), prompt return, nothing left behind, all LEDs red
TraceDisconnect ==
  /\ l <= Len(Trace) /\ Line.ev = "disconnect"
  /\ \E in \in {[ev |-> "disconnect"]} : \E r \in {Apply(cfg, st, in)} :
        /\ Observe(in, r, Line.o, Line.sg, NoLst)
        /\ LET nv == allviol \cup {<<n, l>> : n \in viol'}
                     \* prompt: within the bound, and without hammering the LED server meanwhile (an in-flight frame, the
                     \* final red frame and a retry or two are what the design sends after the stream has ended)
                     \cup (IF Line.return_ms <= 2000 /\ Line.req_after <= 50 THEN {} ELSE {<<"C16_PromptTermination", l>>})
                     \cup (IF "leftover" \notin DOMAIN Line \/ Line.leftover = <<>> THEN {} ELSE {<<"C16_NoLeftover", l>>})
                     \cup (IF ~Judged(Line) \/ (AllRed(FrameOf(Line)) /\ Len(Line.frame) = Len(lay)) THEN {} ELSE {<<"C17_FinalRed", l>>})
           IN /\ allviol' = nv /\ brs' = Inc(brs, r.br)
              /\ drift' = drift \cup (IF Conforms(Line.o, r) THEN {} ELSE {<<l, "output">>})
              /\ Report(nv, drift', brs')
  /\ l' = l + 1 /\ UNCHANGED <<ext, seen, lay, colr>>

TraceCrash ==
  /\ l <= Len(Trace) /\ Line.ev \in {"crash", "hang"}
  /\ allviol' = allviol \cup {<<IF Line.ev = "crash" THEN "X_Crash" ELSE "X_Hang", l>>}
  /\ Report(allviol', drift, brs)
  /\ l' = l + 1 /\ UNCHANGED <<vars, ext, seen, drift, brs, lay, colr>>

TraceNext == TraceStart \/ TraceKey \/ TraceMidiIn \/ TraceDisconnect \/ TraceCrash
TraceSpec == TraceInit /\ [][TraceNext]_tvars
TraceAccepted == TLCGet("stats").diameter = Len(Trace)
=============================================================================
