--------------------------- MODULE FanOutHistTrace ---------------------------
(* C15 trace validation: histories recorded by `verifh fanout` / `verifh relay` *)
EXTENDS FanOutHist
CONSTANT TraceFile
Trace == ndJsonDeserialize(TraceFile)
VARIABLES l, allviol, classes
INSTANCE CaseTrace
=============================================================================
