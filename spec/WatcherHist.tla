----------------------------- MODULE WatcherHist -----------------------------
(***************************************************************************)
(* C19 binding: runs of the real DetectDeviceConfigChanges in a temporary   *)
(* hidi-config tree, judged with the properties of Watcher.tla restated     *)
(* over what the harness observes: the files modified in order (each        *)
(* modification is one write(2) on a file opened with O_APPEND = exactly    *)
(* one inotify event), the number of notifications the consumer received up *)
(* to two final barrier writes (inotify preserves order), and whether the   *)
(* stream ended after cancellation.                                         *)
(***************************************************************************)
EXTENDS Integers, Sequences, FiniteSets, TLC, Json


\* file names used by the driver carry their class in a fixed vocabulary
\* "any letter case" of the extension: the loader lower-cases names, so Mixed.Toml is a configuration file too
TomlNames == {"a.toml", "b.toml", "c.toml", "UPPER.TOML", "zz_barrier1.toml", "zz_barrier2.toml", "with space.toml", "Mixed.Toml", "x.tOmL"}
OtherNames == {"notes.txt", "a.toml.bak", "README", "atoml", "x.tom", "a.toml~", ".toml.swp"}
Dirs == {"hidi-config/factory/gamepad/", "hidi-config/factory/keyboard/", "hidi-config/user/gamepad/", "hidi-config/user/keyboard/"}
WatchedToml == {d \o n : d \in Dirs, n \in TomlNames}
\* files in nested directories are not "in one of the four directories": nothing is demanded for them
Unconstrained == {d \o "nested/" \o n : d \in Dirs, n \in TomlNames}

Toml(f) == f \in WatchedToml

\* one notification per maximal run of identical consecutive toml writes (the kernel may merge those)
\* - among the writes that raise an event at all: a write below a nested directory raises none on the four
\* watches, so two writes of one file with only nested writes between them are still adjacent in the queue
\* - "SYNC" after a write: the harness saw the watcher's log line for that write before going on, so the event had
\* left the kernel queue and the next write of the same file cannot be merged with it
MinNotes(ws) == LET es == SelectSeq(ws, LAMBDA f : f \notin Unconstrained)
                IN Cardinality({i \in 1..Len(es) : Toml(es[i]) /\ (i = 1 \/ es[i - 1] # es[i])})
MaxNotes(ws) == Cardinality({i \in 1..Len(ws) : Toml(ws[i]) \/ ws[i] \in Unconstrained})

Judge(ln) ==
  IF ln.ev # "watcher" THEN {}
  ELSE (IF ln.expect = -1 \/ ln.watches = ln.expect THEN {} ELSE {"X_WatchesNotEstablished"})
       \cup (IF ln.cancelled \/ ln.got >= MinNotes(ln.writes) THEN {} ELSE {"C19_Notified"})
       \cup (IF ln.got <= MaxNotes(ln.writes) THEN {} ELSE {"C19_NoneForOthers"})
       \* the stream ends - and the process is still there (a panic in the watcher's goroutines takes it down)
       \cup (IF ln.closed /\ ~ln.crashed THEN {} ELSE {"C19_StreamEnds"})
       \* the watcher stops at shutdown, whether or not somebody still reads its stream
       \cup (IF ln.after_cancel <= 0 THEN {} ELSE {"C19_WatcherStops"})

ClassOf(ln) == IF ln.ev = "watcher" THEN (IF ln.cancelled THEN "cancelled-midway" ELSE IF ln.late THEN "late-consumer" ELSE "prompt-consumer") ELSE ln.ev
Final(tr) == {}
=============================================================================
