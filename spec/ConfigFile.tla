----------------------------- MODULE ConfigFile -----------------------------
(***************************************************************************)
(* C09 / C10: reading a device configuration (config.ParseData,             *)
(* internal/pkg/midi/device/config/parser.go) and hidi.toml                 *)
(* (LoadHIDIConfig, cmd/hidi/config.go).                                    *)
(*                                                                         *)
(* A case is a structured description d of a configuration file (what the   *)
(* file states, field by field, including values that are not allowed) and  *)
(* what the real parser did with its rendering:                             *)
(*   outcome "config" | "error" | "panic" | "timeout",  proj the returned   *)
(*   Config projected onto plain data.                                      *)
(* Total (C09), MustReject and Faithful (C10) are defined on d.             *)
(***************************************************************************)
EXTENDS Integers, Sequences, FiniteSets, TLC, Json

Modes == {"off", "no_repeat", "interrupt", "retrigger"}
Types == {"cc", "pitch_bend", "key", "action"}
SupportedActions == {"mapping_up", "mapping_down", "mapping", "octave_up", "octave_down", "semitone_up", "semitone_down",
                     "channel_up", "channel_down", "channel", "multinote", "panic", "cc_learning", "exit"}

Range(s) == {s[i] : i \in 1..Len(s)}
Flat(ss) == UNION {Range(ss[i]) : i \in 1..Len(ss)}

KeyEntries(d)    == UNION {UNION {Range(d.maps[m].keys[s].map) : s \in 1..Len(d.maps[m].keys)} : m \in 1..Len(d.maps)}
AnalogEntries(d) == UNION {UNION {Range(d.maps[m].analog[s].map) : s \in 1..Len(d.maps[m].analog)} : m \in 1..Len(d.maps)}
DzEntries(d)     == UNION {UNION {Range(d.maps[m].analog[s].dz) : s \in 1..Len(d.maps[m].analog)} : m \in 1..Len(d.maps)}

-----------------------------------------------------------------------------
(* C10: what must be rejected (the statement's list, evaluated on values)   *)

UnknownField(d)   == d.extra # <<>>
UnknownKeyName(d) == \E e \in Range(d.exit) \cup Range(d.actions) \cup KeyEntries(d) \cup AnalogEntries(d) \cup DzEntries(d) : e.code = -1
BadNote(d)        == \E k \in KeyEntries(d) : k.val \notin 0..127
UnknownAction(d)  == \/ \E a \in Range(d.actions) : a.a \notin SupportedActions
                     \/ \E a \in AnalogEntries(d) : a.type = "action" /\ ((a.hasact /\ a.act \notin SupportedActions)
                                                                         \/ (a.hasactn /\ a.actn \notin SupportedActions))
UnknownType(d)    == \E a \in AnalogEntries(d) : a.type \notin Types
UnknownMode(d)    == d.mode \notin Modes
NoteOutOfRange(d) == \E a \in AnalogEntries(d) : a.type = "key" /\ ((a.hasnote /\ a.note \notin 0..127) \/ (a.hasnoten /\ a.noten \notin 0..127))
CCOutOfRange(d)   == \E a \in AnalogEntries(d) : a.type = "cc" /\ ((a.hascc /\ a.cc \notin 0..127) \/ (a.hasccn /\ a.ccn \notin 0..127))
OffsetOutOfRange(d) == \/ \E k \in KeyEntries(d) : k.hasoff /\ k.off \notin 0..15
                       \/ \E a \in AnalogEntries(d) : a.type \in {"cc", "pitch_bend", "key"} /\
                             ((a.hasoff /\ a.off \notin 0..15) \/ (a.type # "pitch_bend" /\ a.hasoffn /\ a.offn \notin 0..15))
VelocityOutOfRange(d) == d.defaults.velocity \notin 0..127
ChannelOutOfRange(d)  == d.defaults.channel \notin 1..16
DefaultMappingMissing(d) == d.defaults.mapping \notin {d.maps[m].name : m \in 1..Len(d.maps)}

RejectReasons(d) ==
  {r \in {"unknown_field", "unknown_key", "bad_note", "unknown_action", "unknown_type", "unknown_mode", "note_oor", "cc_oor",
          "offset_oor", "velocity_oor", "channel_oor", "default_mapping_missing"} :
     CASE r = "unknown_field" -> UnknownField(d) [] r = "unknown_key" -> UnknownKeyName(d) [] r = "bad_note" -> BadNote(d)
       [] r = "unknown_action" -> UnknownAction(d) [] r = "unknown_type" -> UnknownType(d) [] r = "unknown_mode" -> UnknownMode(d)
       [] r = "note_oor" -> NoteOutOfRange(d) [] r = "cc_oor" -> CCOutOfRange(d) [] r = "offset_oor" -> OffsetOutOfRange(d)
       [] r = "velocity_oor" -> VelocityOutOfRange(d) [] r = "channel_oor" -> ChannelOutOfRange(d)
       [] r = "default_mapping_missing" -> DefaultMappingMissing(d)}
MustReject(d) == RejectReasons(d) # {}

\* the parser may (but need not) reject these; nothing is judged but totality
Incomplete(d) == \E a \in AnalogEntries(d) : \/ (a.type = "cc" /\ ~a.hascc) \/ (a.type = "key" /\ ~a.hasnote)
                                             \/ (a.type = "action" /\ ~a.hasact)
                                             \/ (a.type = "cc" /\ ((a.hascc /\ a.cc > 119) \/ (a.hasccn /\ a.ccn > 119)))

-----------------------------------------------------------------------------
(* C10: meaning of a description, as sets of tuples per area                *)

MKeys(m) == UNION {{<<m.keys[s].sub, k.code, k.val, (IF k.hasoff THEN k.off ELSE 0)>> : k \in Range(m.keys[s].map)} : s \in 1..Len(m.keys)}
PKeys(pm) == {<<k.sub, k.code, k.n, k.o>> : k \in Range(pm.keys)}

\* what is meaningful for each analog type
MAn(sub, a) ==
  LET off == IF a.hasoff THEN a.off ELSE 0
      offn == IF a.hasoffn THEN a.offn ELSE 0
      base == <<sub, a.code, a.type, a.flip, a.centre>>
  IN CASE a.type = "cc" -> base \o <<a.cc, a.hasccn, (IF a.hasccn THEN a.ccn ELSE 0), off, offn>>
       [] a.type = "pitch_bend" -> base \o <<off>>
       [] a.type = "key" -> base \o <<a.note, a.hasnoten, (IF a.hasnoten THEN a.noten ELSE 0), off, offn>>
       [] a.type = "action" -> base \o <<a.act, a.hasactn, (IF a.hasactn THEN a.actn ELSE "")>>
PAn(p) ==
  LET base == <<p.sub, p.code, p.type, p.flip, p.centre>>
  IN CASE p.type = "cc" -> base \o <<p.cc, p.bidi, (IF p.bidi THEN p.ccn ELSE 0), p.off, p.offn>>
       [] p.type = "pitch_bend" -> base \o <<p.off>>
       [] p.type = "key" -> base \o <<p.note, p.bidi, (IF p.bidi THEN p.noten ELSE 0), p.off, p.offn>>
       [] p.type = "action" -> base \o <<p.act, p.bidi, (IF p.bidi THEN p.actn ELSE "")>>
       [] OTHER -> base
MAnalog(m) == UNION {{MAn(m.analog[s].sub, a) : a \in Range(m.analog[s].map)} : s \in 1..Len(m.analog)}
PAnalog(pm) == {PAn(p) : p \in Range(pm.analog)}

MDz(m) == UNION {{<<m.analog[s].sub, z.code, z.v>> : z \in Range(m.analog[s].dz)} : s \in 1..Len(m.analog)}
PDz(pm) == {<<z.sub, z.code, z.v>> : z \in Range(pm.dz)}
MDd(m) == {<<m.analog[s].sub, (IF m.analog[s].dd = "none" THEN "0" ELSE m.analog[s].dd)>> : s \in 1..Len(m.analog)}
PDd(pm) == {<<z.sub, z.v>> : z \in Range(pm.dd)}

RGB(v) == <<(v \div 65536) % 256, (v \div 256) % 256, v % 256>>

FaithfulFailures(d, p) ==
  LET nm == Len(d.maps)
      sameMaps == Len(p.maps) = nm /\ \A m \in 1..nm : p.maps[m].name = d.maps[m].name
  IN (IF p.mode = d.mode THEN {} ELSE {"C10_Faithful_mode"})
     \cup (IF p.exit = [i \in 1..Len(d.exit) |-> d.exit[i].code] THEN {} ELSE {"C10_Faithful_exit"})
     \cup (IF /\ p.ident.bus = d.ident.bus /\ p.ident.vendor = d.ident.vendor /\ p.ident.product = d.ident.product
              /\ p.ident.version = d.ident.version /\ p.ident.uniq = d.ident.uniq THEN {} ELSE {"C10_Faithful_ident"})
     \cup (IF /\ p.defaults.octave = d.defaults.octave /\ p.defaults.semitone = d.defaults.semitone
              /\ p.defaults.channel = d.defaults.channel
              /\ p.defaults.velocity = (IF d.defaults.velocity = 0 THEN 64 ELSE d.defaults.velocity)
              /\ p.defaults.mapping \in 0..(nm - 1) /\ d.maps[p.defaults.mapping + 1].name = d.defaults.mapping
           THEN {} ELSE {"C10_Faithful_defaults"})
     \cup (IF {<<a.code, a.a>> : a \in Range(p.actions)} = {<<a.code, a.a>> : a \in Range(d.actions)} THEN {} ELSE {"C10_Faithful_actions"})
     \cup (IF \A c \in DOMAIN d.colors : p.colors[c] = (IF d.hascolors THEN RGB(d.colors[c]) ELSE <<0, 0, 0>>) THEN {} ELSE {"C10_Faithful_colors"})
     \cup (IF sameMaps THEN {} ELSE {"C10_Faithful_mappings"})
     \cup (IF sameMaps /\ \A m \in 1..nm : PKeys(p.maps[m]) = MKeys(d.maps[m]) THEN {} ELSE {"C10_Faithful_keys"})
     \cup (IF sameMaps /\ \A m \in 1..nm : PAnalog(p.maps[m]) = MAnalog(d.maps[m]) THEN {} ELSE {"C10_Faithful_analog"})
     \cup (IF sameMaps /\ \A m \in 1..nm : PDz(p.maps[m]) = MDz(d.maps[m]) /\ PDd(p.maps[m]) = MDd(d.maps[m]) THEN {} ELSE {"C10_Faithful_deadzones"})

\* whatever the file said: an accepted configuration is within the MIDI ranges
InRangeFailures(p) ==
  IF /\ p.defaults.velocity \in 1..127 /\ p.defaults.channel \in 1..16 /\ p.defaults.mapping \in 0..(Len(p.maps) - 1)
     /\ \A m \in 1..Len(p.maps) :
          /\ \A k \in Range(p.maps[m].keys) : k.n \in 0..127 /\ k.o \in 0..15
          /\ \A a \in Range(p.maps[m].analog) :
               /\ a.cc \in 0..127 /\ a.ccn \in 0..127 /\ a.note \in 0..127 /\ a.noten \in 0..127
               /\ (a.type # "action" => a.off \in 0..15 /\ a.offn \in 0..15)
  THEN {} ELSE {"C10_InRange"}

-----------------------------------------------------------------------------
(* Judging a line                                                            *)
(*  [ev |-> "parse", kind, outcome, desc (optional), proj (when outcome = config and desc given)] *)
(*  [ev |-> "hidiconfig", outcome, ...]   [ev |-> "fuzzsummary", ...]        *)

Total(ln) == IF ln.outcome \in {"config", "error"} THEN {} ELSE {"C09_Total"}

Judge(ln) ==
  CASE ln.ev = "parse" ->
         Total(ln) \cup
         (IF "desc" \notin DOMAIN ln \/ ln.outcome \notin {"config", "error"} THEN {}
          ELSE IF MustReject(ln.desc)
                 THEN (IF ln.outcome = "error" THEN {} ELSE {"C10_Rejects_" \o r : r \in RejectReasons(ln.desc)})
                 ELSE IF ln.outcome = "config" /\ ~Incomplete(ln.desc)
                        THEN FaithfulFailures(ln.desc, ln.proj) \cup InRangeFailures(ln.proj)
                        ELSE {})
    [] ln.ev = "hidiconfig" -> Total(ln)
    [] OTHER -> {}

ClassOf(ln) ==
  IF ln.ev = "parse" THEN
    (IF "desc" \in DOMAIN ln THEN (IF MustReject(ln.desc) THEN "invalid:" ELSE IF Incomplete(ln.desc) THEN "incomplete:" ELSE "valid:")
     ELSE ln.kind \o ":") \o ln.outcome
  ELSE IF ln.ev = "hidiconfig" THEN "hidi.toml:" \o ln.outcome
  ELSE ln.ev

Final(tr) == {}
=============================================================================
