----------------------------- MODULE Discovery -----------------------------
(***************************************************************************)
(* C20: grouping of discovered event handlers into logical devices          *)
(* (internal/pkg/input/device.go:77-168, info.go:134-156).                  *)
(*                                                                         *)
(* A handler is [caps class, physical location].  Normalize groups handlers *)
(* by physical location; the device type is joystick if any handler is      *)
(* joystick-like, otherwise keyboard if any handler is a standard keyboard, *)
(* otherwise not a playable device (mouse / unknown).                       *)
(***************************************************************************)
EXTENDS Integers, Sequences, FiniteSets, TLC, Json

\* capability classes used for generation: the seven sets HandlerType() recognises exactly, one
\* with EV_ABS extra and one with EV_FF (info.go:134-156); the class the code reports for each
\* is logged and the type rule is stated over the reported classes
CapTable ==
  [ std_kbd   |-> <<"EV_SYN", "EV_KEY", "EV_MSC", "EV_LED", "EV_REP">>,
    std_kbd2  |-> <<"EV_SYN", "EV_KEY", "EV_REL", "EV_ABS", "EV_MSC", "EV_LED", "EV_REP">>,
    nkro      |-> <<"EV_SYN", "EV_KEY", "EV_MSC", "EV_REP">>,
    mouse     |-> <<"EV_SYN", "EV_KEY", "EV_REL", "EV_MSC">>,
    system    |-> <<"EV_SYN", "EV_KEY", "EV_MSC">>,
    multimedia|-> <<"EV_SYN", "EV_KEY", "EV_REL", "EV_ABS", "EV_MSC">>,
    joy_abs   |-> <<"EV_SYN", "EV_KEY", "EV_ABS">>,
    joy_ff    |-> <<"EV_SYN", "EV_KEY", "EV_ABS", "EV_FF">>,
    other     |-> <<"EV_SYN", "EV_SW">> ]

\* the class of each capability set of the table, as the classification stands at the pinned commit (the comments in
\* info.go name the hardware behind each set).  The statement's "joystick-like" / "standard keyboard" are these classes:
\* a change that re-classifies one of the sets changes which hardware is playable (C20_HandlerClass)
ExpectedHT ==
  [ std_kbd |-> "STD_KBD", std_kbd2 |-> "STD_KBD", nkro |-> "NKRO_KBD", mouse |-> "MOUSE", system |-> "SYSTEM",
    multimedia |-> "MULTIMEDIA", joy_abs |-> "JOYSTICK", joy_ff |-> "JOYSTICK", other |-> "UNKNOWN" ]

\* what the kernel reports for two interfaces of one USB port (they differ after the last '/': different locations), and
\* the empty location
Locations == <<"usb-0000:00:14.0-1/input0", "usb-0000:00:14.0-1/input1", "">>

ASSUME PrintT(<<"CAPTABLE", ToJson([caps |-> CapTable, locs |-> Locations])>>)

-----------------------------------------------------------------------------
(* The design                                                               *)

\* hs : sequence of [phys, ht]  (ht = handler class as reported by the code)
Groups(hs) == {{i \in 1..Len(hs) : hs[i].phys = p} : p \in {hs[i].phys : i \in 1..Len(hs)}}

TypeOf(hs, g) ==
  IF \E i \in g : hs[i].ht = "JOYSTICK" THEN "Joystick"
  ELSE IF \E i \in g : hs[i].ht = "STD_KBD" THEN "Keyboard"
  ELSE "NotPlayable"

Playable(t) == IF t \in {"Joystick", "Keyboard"} THEN t ELSE "NotPlayable"

Expected(hs) == {<<g, TypeOf(hs, g)>> : g \in Groups(hs)}

\* the design is independent of the discovery order: permuting the handlers permutes the indices only
Content(hs, res) == {<<{<<hs[i].phys, hs[i].ht>> : i \in r[1]}, Cardinality(r[1]), r[2]>> : r \in res}
ASSUME LET a == <<[phys |-> "p", ht |-> "MOUSE"], [phys |-> "q", ht |-> "JOYSTICK"], [phys |-> "p", ht |-> "STD_KBD"]>>
           b == <<a[3], a[1], a[2]>>
       IN Content(a, Expected(a)) = Content(b, Expected(b))

-----------------------------------------------------------------------------
(* Judging one observed call of input.Normalize                             *)
(*  ln.hs   : [phys, cls, ht] in discovery order                            *)
(*  ln.devs : [hs : indices (1-based, by handler name), type, phys]         *)

Observed(ln) == {<<{ln.devs[d].hs[j] : j \in 1..Len(ln.devs[d].hs)}, Playable(ln.devs[d].type)>> : d \in 1..Len(ln.devs)}

Judge(ln) ==
  IF ln.ev = "crash" THEN {"X_Crash"}
  ELSE IF ln.ev # "norm" THEN {}
  ELSE
    LET n == Len(ln.hs)
        all == [d \in 1..Len(ln.devs) |-> ln.devs[d].hs]
        occ(i) == Cardinality({<<d, j>> \in {<<dd, jj>> \in (1..Len(ln.devs)) \X (1..n) : jj <= Len(all[dd])} : all[d][j] = i})
    IN (IF \A i \in 1..n : occ(i) = 1 THEN {} ELSE {"C20_Partition"})
       \cup (IF \A d \in 1..Len(ln.devs) : \A j \in 1..Len(all[d]) : all[d][j] \in 1..n THEN {} ELSE {"C20_Partition"})
       \cup (IF {r[1] : r \in Observed(ln)} = Groups(ln.hs) THEN {} ELSE {"C20_SamePhys"})
       \cup (IF \A r \in Observed(ln) : r[1] \in Groups(ln.hs) => r[2] = TypeOf(ln.hs, r[1]) THEN {} ELSE {"C20_TypeRule"})
       \cup (IF Observed(ln) = Expected(ln.hs) THEN {} ELSE {"C20_OrderIndependent"})
       \cup (IF \A i \in 1..n : ln.hs[i].ht = ExpectedHT[ln.hs[i].cls] THEN {} ELSE {"C20_HandlerClass"})

ClassOf(ln) ==
  IF ln.ev # "norm" THEN ln.ev
  ELSE IF \E i \in 1..Len(ln.hs) : ln.hs[i].ht # ExpectedHT[ln.hs[i].cls] THEN "drift-handler-class"
  ELSE IF Len(ln.devs) < Len(ln.hs) THEN "grouped" ELSE "singletons"

\* a capability set is classified the same way whenever and in whatever company it is met - the trace may be the
\* concatenation of several processes' runs, each meeting the sets in another order
Final(tr) ==
  LET norm == {k \in 1..Len(tr) : tr[k].ev = "norm"}
      seen == UNION {{<<tr[i].hs[j].cls, tr[i].hs[j].ht>> : j \in 1..Len(tr[i].hs)} : i \in norm}
  IN IF \A a, b \in seen : a[1] = b[1] => a[2] = b[2] THEN {} ELSE {"C20_OrderIndependent"}
=============================================================================
