------------------------------- MODULE FanOut -------------------------------
(***************************************************************************)
(* C15: the dynamic fan-out that distributes MIDI input to the connected    *)
(* devices (internal/pkg/utils/fan.go) under attach / detach at arbitrary   *)
(* moments, with consumers that read, or have stopped reading.              *)
(*                                                                         *)
(* Design = "single_mutex"   the code as found: run() holds the one mutex   *)
(*          across the (blocking) sends; Spawn/Despawn take the same mutex. *)
(* Design = "two_mutex"      the repaired code: a map mutex that is never   *)
(*          held across a send, a delivery mutex held by run() for one      *)
(*          message and by DespawnOutput to close the channel, and a drain  *)
(*          of the channel being removed so that a blocked send completes.  *)
(*                                                                         *)
(* One action per lock acquisition / channel operation of the code.         *)
(***************************************************************************)
EXTENDS Integers, Sequences, FiniteSets, TLC

CONSTANTS Design,      \* "single_mutex" | "two_mutex"
          Consumers,   \* set of consumer ids
          NMsg,        \* messages 1..NMsg arrive on the input
          Cap          \* capacity of every output channel

VARIABLES
  next,     \* next message the runner will take from the input
  rpc,      \* runner: "idle" | "wantlock" | "sending"
  rmsg,     \* message in flight
  rpend,    \* outputs the runner still has to send rmsg to (its snapshot of the map)
  dlock,    \* delivery mutex (the only mutex in single_mutex): "free" | "runner" | consumer id
  outs,     \* registered outputs (the map)
  buf,      \* per output: channel buffer
  closedc,  \* outputs whose channel is closed
  cpc,      \* per consumer: "out" | "in" | "unmapped" (two_mutex: removed, waiting for the delivery mutex) | "waitlock" | "gone"
  reading,  \* consumers that still read their channel
  draining, \* outputs being drained by DespawnOutput's helper goroutine
  recv,     \* per consumer: what it received
  snapAt,   \* per consumer: messages whose delivery round had it registered
  crashed   \* a send on a closed channel happened (Go panics)

vars == <<next, rpc, rmsg, rpend, dlock, outs, buf, closedc, cpc, reading, draining, recv, snapAt, crashed>>

Init ==
  /\ next = 1 /\ rpc = "idle" /\ rmsg = 0 /\ rpend = {} /\ dlock = "free"
  /\ outs = {} /\ buf = [c \in Consumers |-> <<>>] /\ closedc = {}
  /\ cpc = [c \in Consumers |-> "out"] /\ reading = Consumers /\ draining = {}
  /\ recv = [c \in Consumers |-> <<>>] /\ snapAt = [c \in Consumers |-> {}] /\ crashed = FALSE

-----------------------------------------------------------------------------
(* run(): for e := range input { lock; for o := range outputs { o <- e }; unlock }            *)

RTake == /\ rpc = "idle" /\ next <= NMsg
         /\ rmsg' = next /\ next' = next + 1 /\ rpc' = "wantlock"
         /\ UNCHANGED <<rpend, dlock, outs, buf, closedc, cpc, reading, draining, recv, snapAt, crashed>>

\* acquires the (delivery) mutex and fixes the set of outputs of this round
RLock == /\ rpc = "wantlock" /\ dlock = "free"
         /\ dlock' = "runner" /\ rpend' = outs /\ rpc' = "sending"
         /\ snapAt' = [c \in Consumers |-> IF c \in outs THEN snapAt[c] \cup {rmsg} ELSE snapAt[c]]
         /\ UNCHANGED <<next, rmsg, outs, buf, closedc, cpc, reading, draining, recv, crashed>>

\* o <- e : blocks while the buffer is full; panics on a closed channel
RSend(c) == /\ rpc = "sending" /\ c \in rpend
            /\ IF c \in closedc
                 THEN crashed' = TRUE /\ UNCHANGED buf
                 ELSE Len(buf[c]) < Cap /\ buf' = [buf EXCEPT ![c] = Append(@, rmsg)] /\ UNCHANGED crashed
            /\ rpend' = rpend \ {c}
            /\ UNCHANGED <<next, rpc, rmsg, dlock, outs, closedc, cpc, reading, draining, recv, snapAt>>

RUnlock == /\ rpc = "sending" /\ rpend = {}
           /\ dlock' = "free" /\ rpc' = "idle"
           /\ UNCHANGED <<next, rmsg, rpend, outs, buf, closedc, cpc, reading, draining, recv, snapAt, crashed>>

-----------------------------------------------------------------------------
(* SpawnOutput / DespawnOutput                                              *)

\* single_mutex: needs the mutex the runner holds across sends; two_mutex: the map mutex (always short)
Spawn(c) == /\ cpc[c] = "out" /\ c \notin closedc
            /\ (Design = "single_mutex" => dlock = "free")
            /\ outs' = outs \cup {c} /\ cpc' = [cpc EXCEPT ![c] = "in"]
            /\ UNCHANGED <<next, rpc, rmsg, rpend, dlock, buf, closedc, reading, draining, recv, snapAt, crashed>>

\* the device stopped reading its MIDI input (its processing ended); the application then detaches it
Stop(c) == /\ cpc[c] = "in" /\ c \in reading
           /\ reading' = reading \ {c}
           /\ UNCHANGED <<next, rpc, rmsg, rpend, dlock, outs, buf, closedc, cpc, draining, recv, snapAt, crashed>>

DespawnCall(c) == /\ cpc[c] = "in"
                  /\ IF Design = "single_mutex"
                       THEN cpc' = [cpc EXCEPT ![c] = "waitlock"] /\ UNCHANGED <<outs, draining>>
                       ELSE \* map mutex: remove from the map, start draining
                            /\ outs' = outs \ {c} /\ draining' = draining \cup {c}
                            /\ cpc' = [cpc EXCEPT ![c] = "waitlock"]
                  /\ UNCHANGED <<next, rpc, rmsg, rpend, dlock, buf, closedc, reading, recv, snapAt, crashed>>

\* takes the (delivery) mutex, closes the channel (single_mutex: and removes it from the map), releases
DespawnDo(c) == /\ cpc[c] = "waitlock" /\ dlock = "free"
                /\ closedc' = closedc \cup {c} /\ outs' = outs \ {c}
                /\ cpc' = [cpc EXCEPT ![c] = "gone"]
                /\ UNCHANGED <<next, rpc, rmsg, rpend, dlock, buf, reading, draining, recv, snapAt, crashed>>

-----------------------------------------------------------------------------
(* consumers and the drain helper                                           *)

Recv(c) == /\ c \in reading /\ buf[c] # <<>>
           /\ recv' = [recv EXCEPT ![c] = Append(@, Head(buf[c]))]
           /\ buf' = [buf EXCEPT ![c] = Tail(@)]
           /\ UNCHANGED <<next, rpc, rmsg, rpend, dlock, outs, closedc, cpc, reading, draining, snapAt, crashed>>

Drain(c) == /\ c \in draining /\ buf[c] # <<>>
            /\ buf' = [buf EXCEPT ![c] = Tail(@)]
            /\ UNCHANGED <<next, rpc, rmsg, rpend, dlock, outs, closedc, cpc, reading, draining, recv, snapAt, crashed>>

Next == RTake \/ RLock \/ RUnlock
        \/ \E c \in Consumers : RSend(c) \/ Spawn(c) \/ Stop(c) \/ DespawnCall(c) \/ DespawnDo(c) \/ Recv(c) \/ Drain(c)

\* Fairness as the code and the application provide it: the runner and the helpers run; Go's mutex
\* hands over to a starving waiter (strong fairness of acquisitions); a consumer that still reads keeps
\* reading; a device that stopped reading is eventually detached by the manager.
Fairness ==
  /\ WF_vars(RTake) /\ SF_vars(RLock) /\ WF_vars(RUnlock)
  /\ \A c \in Consumers :
       /\ WF_vars(RSend(c)) /\ WF_vars(Recv(c)) /\ WF_vars(Drain(c))
       /\ SF_vars(DespawnDo(c))
       /\ WF_vars(c \notin reading /\ DespawnCall(c))

Spec == Init /\ [][Next]_vars /\ Fairness

-----------------------------------------------------------------------------
(* Properties                                                               *)

Increasing(s) == \A i \in 1..(Len(s) - 1) : s[i] < s[i + 1]

NoSendOnClosed == ~crashed

\* in order, exactly once: what a consumer has received or has waiting is strictly increasing
PerConsumerOrder == \A c \in Consumers : Increasing(recv[c] \o (IF c \in draining THEN <<>> ELSE buf[c]))

\* nothing that was not meant for it: only messages of rounds that had it registered
NoExtra == \A c \in Consumers : \A i \in 1..Len(recv[c]) : recv[c][i] \in snapAt[c]

\* delivered while connected: once a round is over, every output that was registered for it and is still
\* attached holds the message (received or waiting)
DeliveredWhileConnected ==
  rpc = "idle" =>
    \A c \in Consumers : cpc[c] = "in" =>
       \A m \in snapAt[c] : \E i \in 1..Len(recv[c] \o buf[c]) : (recv[c] \o buf[c])[i] = m

\* removing a device always completes, even if it has stopped reading
DespawnCompletes == \A c \in Consumers : (cpc[c] = "waitlock") ~> (cpc[c] = "gone")

\* a reading, attached consumer eventually receives what was taken for it
EventuallyReceived ==
  \A c \in Consumers : \A m \in 1..NMsg :
     (m \in snapAt[c] /\ c \in reading /\ cpc[c] = "in") ~> ((\E i \in 1..Len(recv[c]) : recv[c][i] = m) \/ cpc[c] # "in" \/ c \notin reading)

TypeOK == /\ next \in 1..(NMsg + 1) /\ rpc \in {"idle", "wantlock", "sending"}
          /\ dlock \in {"free", "runner"} /\ outs \subseteq Consumers
=============================================================================
