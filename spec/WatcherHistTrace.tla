--------------------------- MODULE WatcherHistTrace ---------------------------
(* C19 trace validation: runs recorded by `verifh watcher` *)
EXTENDS WatcherHist
CONSTANT TraceFile
Trace == ndJsonDeserialize(TraceFile)
VARIABLES l, allviol, classes
INSTANCE CaseTrace
=============================================================================
