------------------------------- MODULE Device -------------------------------
(***************************************************************************)
(* The per-device engine of gethiox/HIDI: internal/pkg/midi/device.         *)
(*                                                                         *)
(* One step of this specification is one call of Device.processEvent       *)
(* (events.go:305-324) -- the critical section protected by                *)
(* eventProcessMutex -- or the clean-up that ProcessEvents performs after  *)
(* its input channel is closed (events.go:340-363).                        *)
(*                                                                         *)
(* The module is written to be bound to the code:                          *)
(*  - the state is implementation shaped (one field per field of           *)
(*    device.Device that the engine reads or writes);                      *)
(*  - the transition function Apply(c, s, in) is a pure function whose     *)
(*    branches carry the names of the code's branches (field br);          *)
(*  - it returns the exact MIDI bytes the code puts on the wire (field o)   *)
(*    and how strictly their order/rounding is determined (field cmp);     *)
(*  - model checking (MC_*.tla) lets the wire carry the prediction;         *)
(*    trace validation (DeviceTrace.tla) lets the wire carry what the real *)
(*    code sent and only *compares* it with the prediction (drift).        *)
(*                                                                         *)
(* The configuration is a value (variable cfg, constant in a behaviour     *)
(* except at a trace reset) so that one trace specification serves every   *)
(* configuration a driver invents.                                         *)
(*                                                                         *)
(* Configuration record                                                    *)
(*   mode     "off" | "no_repeat" | "interrupt" | "retrigger"              *)
(*   exit     sequence of key names                                        *)
(*   vel      1..127                                                       *)
(*   dOct, dSemi integers;  dChan 0..15 (0 based);  dMap 1..Len(maps)      *)
(*   actions  [key name -> action name]                                    *)
(*   maps     sequence of [name, keys : [key -> [n, o]],                   *)
(*                         axes : [axis -> axis record]]                   *)
(*   axinfo   [axis -> [min, max]]                                         *)
(* Axis record                                                             *)
(*   type "cc"|"pitch_bend"|"key"|"action"; cc, ccNeg, note, noteNeg,      *)
(*   off, offNeg, act, actNeg, bidi, flip, centre : as config.Analog*)
(*   dzn, dzd : the dead-zone that events.go:134-143 resolves, as dzn/dzd  *)
(***************************************************************************)
EXTENDS Integers, Sequences, FiniteSets, TLC

-----------------------------------------------------------------------------
(* MIDI bytes, exactly as internal/pkg/midi/event.go:132-146 builds them   *)

NoteOnMsg(ch, n, v) == <<144 + ch, n, v>>
NoteOffMsg(ch, n)   == <<128 + ch, n, 0>>
CCMsg(ch, c, v)     == <<176 + ch, c, v>>
PBMsg(ch, v14)      == <<224 + ch, v14 % 128, (v14 \div 128) % 128>>

Kind(m)  == m[1] \div 16      \* 8 Note Off, 9 Note On, 11 CC, 14 Pitch Bend
ChanOf(m) == m[1] % 16
IsOn(m)  == Kind(m) = 9
IsOff(m) == Kind(m) = 8
IsCC(m)  == Kind(m) = 11
IsPB(m)  == Kind(m) = 14
PB14(m)  == m[2] + 128 * m[3]

AllNotesOff == 123

-----------------------------------------------------------------------------
(* Small helpers                                                           *)

Abs(x) == IF x < 0 THEN -x ELSE x
Sign(x) == IF x < 0 THEN -1 ELSE IF x > 0 THEN 1 ELSE 0
Max(a, b) == IF a > b THEN a ELSE b

RECURSIVE Gcd(_, _)
Gcd(a, b) == IF b = 0 THEN a ELSE Gcd(b, a % b)

\* floor(a*b/c) and remainder for a, b >= 0, c > 0 without overflowing
\* TLC's 32-bit integers: <<q, r>> with a*b = q*c + r, 0 <= r < c.
RECURSIVE MulDivR(_, _, _)
MulDivR(a, b, c) ==
  IF a = 0 THEN <<0, 0>>
  ELSE LET h  == MulDivR(a \div 2, b, c)
           r2 == 2 * h[2] + (IF a % 2 = 1 THEN b % c ELSE 0)
           q2 == 2 * h[1] + (IF a % 2 = 1 THEN b \div c ELSE 0)
       IN <<q2 + (r2 \div c), r2 % c>>
MulDivFloor(a, b, c) == MulDivR(a, b, c)[1]
MulDivExact(a, b, c) == MulDivR(a, b, c)[2] = 0

\* rationals are pairs <<n, d>> with d > 0
RNorm(r) == LET g == Gcd(Abs(r[1]), r[2]) IN IF g = 0 THEN r ELSE <<r[1] \div g, r[2] \div g>>
REq(r1, r2) == RNorm(r1) = RNorm(r2)
RZero == <<0, 1>>

Dom(f) == DOMAIN f
Drop(f, x) == [y \in DOMAIN f \ {x} |-> f[y]]
Put(f, x, v) == [y \in DOMAIN f \cup {x} |-> IF y = x THEN v ELSE f[y]]
Get0(f, x) == IF x \in DOMAIN f THEN f[x] ELSE 0
Inc(f, x) == Put(f, x, Get0(f, x) + 1)
Dec(f, x) == IF Get0(f, x) = 1 THEN Drop(f, x) ELSE Put(f, x, Get0(f, x) - 1)

SeqRange(s) == {s[i] : i \in 1..Len(s)}

\* number of occurrences of x in sequence s
Occ(s, x) == Cardinality({i \in 1..Len(s) : s[i] = x})
IsPerm(s, t) == Len(s) = Len(t) /\ \A x \in SeqRange(s) \cup SeqRange(t) : Occ(s, x) = Occ(t, x)

-----------------------------------------------------------------------------
(* Configuration access                                                    *)

NMaps(c)        == Len(c.maps)
KeysOf(c, m)    == DOMAIN c.maps[m].keys
AxesOf(c, m)    == DOMAIN c.maps[m].axes
IsActionKey(c, k) == k \in DOMAIN c.actions
ExitSet(c)      == SeqRange(c.exit)

AllKeys(c) == UNION {KeysOf(c, m) : m \in 1..NMaps(c)} \cup DOMAIN c.actions \cup ExitSet(c)
AllAxes(c) == DOMAIN c.axinfo

-----------------------------------------------------------------------------
(* The implementation-shaped state (device.go:25-69)                       *)

InitState(c) ==
  [ oct      |-> c.dOct,            \* octave
    semi     |-> c.dSemi,           \* semitone
    chan     |-> c.dChan,           \* channel (0 based, as the field)
    map      |-> c.dMap,            \* mapping (1 based here, 0 based in Go)
    learning |-> FALSE,             \* ccLearning
    held     |-> {},                \* keyTracker
    acts     |-> {},                \* actionTracker
    trk      |-> <<>>,              \* noteTracker        key -> <<ch, note>>
    cnt      |-> <<>>,              \* activeNotesCounter <<ch, note>> -> holders (> 0 only)
    atrk     |-> <<>>,              \* analogNoteTracker  <<axis, "pos"|"neg">> -> <<ch, note>>
    lastAn   |-> <<>>,              \* lastAnalogValue    axis -> rational (absent = 0)
    zeroed   |-> {},                \* ccZeroed           set of controller numbers whose flag is true
    sigs     |-> 0,                 \* number of SIGINTs written to d.sigs
    phase    |-> "running" ]        \* running | done (ProcessEvents returned)

-----------------------------------------------------------------------------
(* Results of one step                                                      *)
(*   s   post state                                                         *)
(*   o   predicted wire output                                              *)
(*   cmp "exact": order and bytes determined (Note Off velocity aside);     *)
(*       "perm" : the code ranges over a Go map, any order;                 *)
(*   br  name of the branch of the code that ran                            *)

R(s, o, br)     == [s |-> s, o |-> o, cmp |-> "exact", br |-> br]
RPerm(s, o, br) == [s |-> s, o |-> o, cmp |-> "perm",  br |-> br]

-----------------------------------------------------------------------------
(* Notes from keys: device.go:193-275                                       *)

KeyPitch(c, s, k) == c.maps[s.map].keys[k].n + 12 * s.oct + s.semi
KeyChan(c, s, k)  == (s.chan + c.maps[s.map].keys[k].o) % 16

PressOut(mode, h, p, vel) ==
  CASE mode \in {"off", "retrigger"} -> <<NoteOnMsg(p[1], p[2], vel)>>
    [] mode = "no_repeat" -> IF h > 0 THEN <<>> ELSE <<NoteOnMsg(p[1], p[2], vel)>>
    [] mode = "interrupt" -> IF h > 0 THEN <<NoteOffMsg(p[1], p[2]), NoteOnMsg(p[1], p[2], vel)>>
                                      ELSE <<NoteOnMsg(p[1], p[2], vel)>>

ReleaseOut(mode, h, p) ==
  IF mode = "off" THEN <<NoteOffMsg(p[1], p[2])>>
  ELSE IF h = 1 THEN <<NoteOffMsg(p[1], p[2])>> ELSE <<>>

NoteOn(c, s, k) ==
  LET n == KeyPitch(c, s, k)
      p == <<KeyChan(c, s, k), n>>
  IN IF n < 0 \/ n > 127
       THEN R(s, <<>>, "NoteOnOutOfRange")
       ELSE R([s EXCEPT !.trk = Put(@, k, p), !.cnt = Inc(@, p)],
              PressOut(c.mode, Get0(s.cnt, p), p, c.vel), "NoteOn")

NoteOff(c, s, k, br) ==
  IF k \notin DOMAIN s.trk THEN R(s, <<>>, "ReleaseUntracked")
  ELSE LET p == s.trk[k]
       IN R([s EXCEPT !.trk = Drop(@, k), !.cnt = Dec(@, p)],
            ReleaseOut(c.mode, Get0(s.cnt, p), p), br)

-----------------------------------------------------------------------------
(* Actions: device.go:162-191, 309-473                                      *)

PanicOut(ch) == <<CCMsg(ch, AllNotesOff, 0)>> \o [i \in 1..128 |-> NoteOffMsg(ch, i - 1)]

\* checkDoubleActions: the first matching pair in the order of the switch
DoublePair(a) ==
  CASE {"mapping_up", "mapping_down"}   \subseteq a -> "mapping"
    [] {"octave_up", "octave_down"}     \subseteq a -> "octave"
    [] {"semitone_up", "semitone_down"} \subseteq a -> "semitone"
    [] {"channel_up", "channel_down"}   \subseteq a -> "channel"
    [] OTHER -> "none"

ResetPair(s, which) ==
  CASE which = "mapping"  -> [s EXCEPT !.map = 1]
    [] which = "octave"   -> [s EXCEPT !.oct = 0]
    [] which = "semitone" -> [s EXCEPT !.semi = 0]
    [] which = "channel"  -> [s EXCEPT !.chan = 0]

\* invokeActionPress: state effect and output
ActionPressR(c, s, a) ==
  CASE a = "panic"         -> R(s, PanicOut(s.chan), "Panic")
    [] a = "mapping_up"    -> R([s EXCEPT !.map  = IF @ = NMaps(c) THEN @ ELSE @ + 1], <<>>, "MappingUp")
    [] a = "mapping_down"  -> R([s EXCEPT !.map  = IF @ = 1 THEN @ ELSE @ - 1], <<>>, "MappingDown")
    [] a = "octave_up"     -> R([s EXCEPT !.oct  = @ + 1], <<>>, "OctaveUp")
    [] a = "octave_down"   -> R([s EXCEPT !.oct  = @ - 1], <<>>, "OctaveDown")
    [] a = "semitone_up"   -> R([s EXCEPT !.semi = @ + 1], <<>>, "SemitoneUp")
    [] a = "semitone_down" -> R([s EXCEPT !.semi = @ - 1], <<>>, "SemitoneDown")
    [] a = "channel_up"    -> R([s EXCEPT !.chan = IF @ = 15 THEN @ ELSE @ + 1], <<>>, "ChannelUp")
    [] a = "channel_down"  -> R([s EXCEPT !.chan = IF @ = 0 THEN @ ELSE @ - 1], <<>>, "ChannelDown")
    [] a = "cc_learning"   -> R([s EXCEPT !.learning = TRUE], <<>>, "LearningOn")
    [] OTHER               -> R(s, <<>>, "ActionNoop")       \* multinote, mapping, channel, exit

ActionReleaseS(s, a) == IF a = "cc_learning" THEN [s EXCEPT !.learning = FALSE] ELSE s

-----------------------------------------------------------------------------
(* Key events: events.go:17-93                                              *)

ExitComplete(c, h) == Len(c.exit) > 0 /\ ExitSet(c) \subseteq h

KeyPress(c, s0, k) ==
  LET s == [s0 EXCEPT !.held = @ \cup {k}]
  IN IF ExitComplete(c, s.held)
       THEN R([s EXCEPT !.sigs = @ + 1], <<>>, "ExitSwallow")
     ELSE IF IsActionKey(c, k) THEN
       LET a  == c.actions[k]
           s1 == [s EXCEPT !.acts = @ \cup {a}]
           dp == IF Cardinality(s1.acts) > 1 THEN DoublePair(s1.acts) ELSE "none"
       IN IF dp # "none" THEN R(ResetPair(s1, dp), <<>>, "PairReset")
          ELSE ActionPressR(c, s1, a)
     ELSE IF k \in KeysOf(c, s.map) THEN NoteOn(c, s, k)
     ELSE R(s, <<>>, "UnmappedPress")

KeyRelease(c, s0, k) ==
  LET s == [s0 EXCEPT !.held = @ \ {k}]
  IN IF IsActionKey(c, k) THEN
       LET a == c.actions[k]
       IN R([ActionReleaseS(s, a) EXCEPT !.acts = @ \ {a}], <<>>, "ActionRelease")
     ELSE IF k \in KeysOf(c, s.map) THEN NoteOff(c, s, k, "NoteOff")
     ELSE NoteOff(c, s, k, "OrphanRelease")   \* events.go:70-79

-----------------------------------------------------------------------------
(* Axis transfer: events.go:109-172 in exact rational arithmetic            *)

\* normalised position of raw value r on an axis with range [mn, mx]
Normalised(info, r) == IF r < 0 THEN <<r, Abs(info.min)>> ELSE <<r, Abs(info.max)>>

Centred(v) == <<2 * v[1] - v[2], v[2]>>

\* dead-zone shaping of v with dead-zone dn/dd : sign(v)*max(0,|v|-dz)/(1-dz)
Shaped(v, dn, dd) ==
  LET num == Abs(v[1]) * dd - dn * v[2]
  IN IF num <= 0 THEN RZero ELSE RNorm(<<Sign(v[1]) * num, v[2] * (dd - dn)>>)

CanNeg(info, ad) == info.min < 0 \/ ad.centre

\* the value handleABSEvent works with after dead-zone (before flip)
ShapedOf(info, ad, r) ==
  LET v0 == Normalised(info, r)
      v1 == IF ad.centre THEN Centred(v0) ELSE v0
  IN Shaped(v1, ad.dzn, ad.dzd)

Flipped(info, ad, v) ==
  IF ~ad.flip THEN v
  ELSE IF CanNeg(info, ad) THEN <<-v[1], v[2]>> ELSE <<v[2] - v[1], v[2]>>

RLtHalfAbs(v) == 2 * Abs(v[1]) <= v[2]          \* |v| <= 1/2  (the learning gate passes only |v| > 1/2)
RGeHalf(v)    == 2 * v[1] >= v[2]               \* v >= 1/2
RLeMinusHalf(v) == 2 * v[1] <= -v[2]            \* v <= -1/2
RInCentre(v)  == 100 * Abs(v[1]) < 49 * v[2]    \* -0.49 < v < 0.49
Twice1(v)     == <<2 * v[1] - v[2], v[2]>>      \* 2v - 1

\* byte(int(127 * n/d)) for 0 <= n/d <= 1
Scale127(q) == MulDivFloor(127, q[1], q[2])

\* PitchBendEvent(ch, b) for b in [-1, 1] (event.go:140-146): the 14-bit value nearest to
\* 16383 * (b + 1) / 2, halves rounded up: centre 8192, end stops 0 and 16383
PBValue(b) ==
  LET q == MulDivR(16383, b[1] + b[2], 2 * b[2])       \* floor and remainder of 16383*(b+1)/2
  IN q[1] + (IF 2 * q[2] >= 2 * b[2] THEN 1 ELSE 0)

AnalogPitch(c, s, note) == note + 12 * s.oct + s.semi

AnalogNoteOn(c, s, id, note, off) ==
  LET n == AnalogPitch(c, s, note)
      p == <<(s.chan + off) % 16, n>>
  IN IF n < 0 \/ n > 127 THEN [s |-> s, o |-> <<>>]
     ELSE [s |-> [s EXCEPT !.atrk = Put(@, id, p)], o |-> <<NoteOnMsg(p[1], p[2], 64)>>]

AnalogNoteOff(s, id) ==
  IF id \notin DOMAIN s.atrk THEN [s |-> s, o |-> <<>>]
  ELSE [s |-> [s EXCEPT !.atrk = Drop(@, id)], o |-> <<NoteOffMsg(s.atrk[id][1], s.atrk[id][2])>>]

\* bidirectional controller: value on the current side, then an explicit 0 for the side left behind
BidiOut(s, ad, neg, val) ==
  LET ch    == (s.chan + ad.off) % 16
      chNeg == (s.chan + ad.offNeg) % 16
  IN IF neg
       THEN [s |-> [s EXCEPT !.zeroed = (@ \cup {ad.cc}) \ {ad.ccNeg}],
             o |-> <<CCMsg(chNeg, ad.ccNeg, val)>> \o (IF ad.cc \in s.zeroed THEN <<>> ELSE <<CCMsg(ch, ad.cc, 0)>>)]
       ELSE [s |-> [s EXCEPT !.zeroed = (@ \cup {ad.ccNeg}) \ {ad.cc}],
             o |-> <<CCMsg(ch, ad.cc, val)>> \o (IF ad.ccNeg \in s.zeroed THEN <<>> ELSE <<CCMsg(chNeg, ad.ccNeg, 0)>>)]

AxisCC(c, s, info, ad, v) ==
  LET ch == (s.chan + ad.off) % 16
      cn == CanNeg(info, ad)
  IN CASE cn /\ ad.bidi ->
            LET r == BidiOut(s, ad, v[1] < 0, Scale127(<<Abs(v[1]), v[2]>>))
            IN R(r.s, r.o, "AxisCCBidiSigned")
       [] cn /\ ~ad.bidi ->
            R(s, <<CCMsg(ch, ad.cc, Scale127(<<v[1] + v[2], 2 * v[2]>>))>>, "AxisCCSigned")
       [] ~cn /\ ad.bidi ->
            LET w == Twice1(v)
                r == BidiOut(s, ad, w[1] < 0, Scale127(<<Abs(w[1]), w[2]>>))
            IN R(r.s, r.o, "AxisCCBidiUnsigned")
       [] OTHER ->
            R(s, <<CCMsg(ch, ad.cc, Scale127(v))>>, "AxisCC")

AxisPitch(c, s, info, ad, v) ==
  LET ch == (s.chan + ad.off) % 16
      b  == IF CanNeg(info, ad) THEN v ELSE Twice1(v)
  IN R(s, <<PBMsg(ch, PBValue(b))>>, "AxisPitch")

AxisKey(c, s, a, info, ad, v0) ==
  LET v   == IF CanNeg(info, ad) THEN v0 ELSE Twice1(v0)
      pid == <<a, "pos">>
      nid == <<a, "neg">>
  IN IF RLeMinusHalf(v) THEN
       \* note_negative absent: nothing is configured for that direction, it stays silent
       LET on  == IF nid \in DOMAIN s.atrk \/ ~ad.bidi THEN [s |-> s, o |-> <<>>]
                  ELSE AnalogNoteOn(c, s, nid, ad.noteNeg, ad.offNeg)
           off == AnalogNoteOff(on.s, pid)
       IN R(off.s, on.o \o off.o, "AxisKeyNeg")
     ELSE IF RInCentre(v) THEN
       LET o1 == AnalogNoteOff(s, pid)
           o2 == AnalogNoteOff(o1.s, nid)
       IN R(o2.s, o1.o \o o2.o, "AxisKeyCentre")
     ELSE IF RGeHalf(v) THEN
       LET on  == IF pid \in DOMAIN s.atrk THEN [s |-> s, o |-> <<>>]
                  ELSE AnalogNoteOn(c, s, pid, ad.note, ad.off)
           off == AnalogNoteOff(on.s, nid)
       IN R(off.s, on.o \o off.o, "AxisKeyPos")
     ELSE R(s, <<>>, "AxisKeyGap")

\* action emulation (events.go:268-295).  checkDoubleActions has its side effect first.
AxisAction(c, s, info, ad, v0) ==
  LET dp == IF Cardinality(s.acts) > 1 THEN DoublePair(s.acts) ELSE "none"
      v  == IF CanNeg(info, ad) THEN v0 ELSE Twice1(v0)
  IN IF dp # "none" THEN R(ResetPair(s, dp), <<>>, "AxisActionPairReset")
     ELSE IF RLeMinusHalf(v) THEN
       LET r == ActionPressR(c, s, ad.actNeg)
       IN R([ActionReleaseS(r.s, ad.act) EXCEPT !.acts = (@ \cup {ad.actNeg}) \ {ad.act}], r.o, "AxisActionNeg")
     ELSE IF RInCentre(v) THEN
       R([ActionReleaseS(ActionReleaseS(s, ad.actNeg), ad.act) EXCEPT !.acts = @ \ {ad.act, ad.actNeg}], <<>>, "AxisActionCentre")
     ELSE IF RGeHalf(v) THEN
       LET r == ActionPressR(c, s, ad.act)
       IN R([ActionReleaseS(r.s, ad.actNeg) EXCEPT !.acts = (@ \cup {ad.act}) \ {ad.actNeg}], r.o, "AxisActionPos")
     ELSE R(s, <<>>, "AxisActionGap")

AxisMove(c, s, a, raw) ==
  IF a \notin AxesOf(c, s.map) THEN R(s, <<>>, "AxisUndefined")
  ELSE
    LET ad   == c.maps[s.map].axes[a]
        info == c.axinfo[a]
        sh   == ShapedOf(info, ad, raw)
        last == IF a \in DOMAIN s.lastAn THEN s.lastAn[a] ELSE RZero
    IN IF REq(sh, last) THEN R(s, <<>>, "AxisDuplicate")
       ELSE
         LET s1 == [s EXCEPT !.lastAn = Put(@, a, sh)]
             v  == Flipped(info, ad, sh)
         IN IF s1.learning /\ RLtHalfAbs(v) THEN R(s1, <<>>, "AxisLearningGate")
            ELSE CASE ad.type = "cc"         -> AxisCC(c, s1, info, ad, v)
                   [] ad.type = "pitch_bend" -> AxisPitch(c, s1, info, ad, v)
                   [] ad.type = "key"        -> AxisKey(c, s1, a, info, ad, v)
                   [] ad.type = "action"     -> AxisAction(c, s1, info, ad, v)

-----------------------------------------------------------------------------
(* Disconnect: events.go:340-363.  The code ranges over two Go maps, the    *)
(* order of the messages is not determined.                                 *)

CleanupOut(c, s) ==
  LET RECURSIVE Lst(_)     \* mode off: one Note Off per tracked key
      Lst(K) == IF K = {} THEN <<>>
                ELSE LET k == CHOOSE x \in K : TRUE
                     IN <<NoteOffMsg(s.trk[k][1], s.trk[k][2])>> \o Lst(K \ {k})
      RECURSIVE Lp(_)      \* managed modes: the loop emits when the counter reaches 1,
                           \* i.e. one Note Off per pair all of whose holders are tracked
      Lp(P) == IF P = {} THEN <<>>
               ELSE LET p == CHOOSE x \in P : TRUE
                        tracked == Cardinality({k \in DOMAIN s.trk : s.trk[k] = p})
                    IN (IF Get0(s.cnt, p) = tracked THEN <<NoteOffMsg(p[1], p[2])>> ELSE <<>>)
                       \o Lp(P \ {p})
      RECURSIVE La(_)      \* analog notes
      La(I) == IF I = {} THEN <<>>
               ELSE LET i == CHOOSE x \in I : TRUE
                    IN <<NoteOffMsg(s.atrk[i][1], s.atrk[i][2])>> \o La(I \ {i})
  IN (IF c.mode = "off" THEN Lst(DOMAIN s.trk) ELSE Lp({s.trk[k] : k \in DOMAIN s.trk}))
     \o La(DOMAIN s.atrk)

Disconnect(c, s) ==
  LET RECURSIVE DecAll(_, _)
      DecAll(cn, K) == IF K = {} THEN cn
                       ELSE LET k == CHOOSE x \in K : TRUE IN DecAll(Dec(cn, s.trk[k]), K \ {k})
  IN RPerm([s EXCEPT !.trk = <<>>, !.atrk = <<>>, !.cnt = DecAll(s.cnt, DOMAIN s.trk), !.phase = "done"],
           CleanupOut(c, s), "Disconnect")

-----------------------------------------------------------------------------
(* The transition function                                                  *)

Apply(c, s, in) ==
  CASE in.ev = "press"      -> KeyPress(c, s, in.k)
    [] in.ev = "release"    -> KeyRelease(c, s, in.k)
    [] in.ev = "axis"       -> AxisMove(c, s, in.a, in.raw)
    [] in.ev = "disconnect" -> Disconnect(c, s)
    [] in.ev = "ignored"    -> R(s, <<>>, "Ignored")      \* EV_SYN, key repeat, other types

\* press immediately followed by release of the same key (model checking shortcut;
\* replayed on the code as the two events it stands for)
ApplyTap(c, s, k) ==
  LET r1 == KeyPress(c, s, k)
      r2 == KeyRelease(c, r1.s, k)
  IN [s |-> r2.s, o |-> r1.o \o r2.o, cmp |-> "exact", br |-> r1.br]

-----------------------------------------------------------------------------
(* Receiver-side observers: what a synthesiser listening to the wire knows  *)

\* index of the last message of o satisfying Aff, 0 if none
LastIdx(o, Aff(_)) ==
  LET I == {i \in 1..Len(o) : Aff(o[i])}
  IN IF I = {} THEN 0 ELSE CHOOSE i \in I : \A j \in I : j <= i

Msg3(m) == Len(m) = 3

\* a pitch sounds after a Note On until the next Note Off for it or All Notes Off on its channel
HearSnd(snd, o) ==
  LET cand == snd \cup {<<ChanOf(o[i]), o[i][2]>> : i \in {j \in 1..Len(o) : Msg3(o[j]) /\ IsOn(o[j])}}
      Aff(p, m) == Msg3(m) /\ ChanOf(m) = p[1] /\
                   (((IsOn(m) \/ IsOff(m)) /\ m[2] = p[2]) \/ (IsCC(m) /\ m[2] = AllNotesOff))
  IN {p \in cand : LET i == LastIdx(o, LAMBDA m : Aff(p, m))
                   IN IF i = 0 THEN p \in snd ELSE IsOn(o[i])}

HearCC(ccv, o) ==
  LET keys == DOMAIN ccv \cup {<<ChanOf(o[i]), o[i][2]>> : i \in {j \in 1..Len(o) : Msg3(o[j]) /\ IsCC(o[j])}}
  IN [k \in keys |->
        LET i == LastIdx(o, LAMBDA m : Msg3(m) /\ IsCC(m) /\ ChanOf(m) = k[1] /\ m[2] = k[2])
        IN IF i = 0 THEN ccv[k] ELSE o[i][3]]

HearPB(pb, o) ==
  LET keys == DOMAIN pb \cup {ChanOf(o[i]) : i \in {j \in 1..Len(o) : Msg3(o[j]) /\ IsPB(o[j])}}
  IN [k \in keys |->
        LET i == LastIdx(o, LAMBDA m : Msg3(m) /\ IsPB(m) /\ ChanOf(m) = k)
        IN IF i = 0 THEN pb[k] ELSE PB14(o[i])]

\* a raw message is a complete, valid channel message of one of the four kinds HIDI emits
WellFormedMsg(m) ==
  /\ Len(m) = 3
  /\ m[1] >= 128 /\ m[1] <= 239 /\ Kind(m) \in {8, 9, 11, 14}
  /\ m[2] >= 0 /\ m[2] <= 127
  /\ m[3] >= 0 /\ m[3] <= 127

NoteOffs(o) == {i \in 1..Len(o) : Msg3(o[i]) /\ IsOff(o[i])}
NoteOns(o)  == {i \in 1..Len(o) : Msg3(o[i]) /\ IsOn(o[i])}
PairOf(m)   == <<ChanOf(m), m[2]>>

-----------------------------------------------------------------------------
(* Drift comparison: does the observed output equal the prediction, up to  *)
(* what the code leaves undetermined (velocity byte of a Note Off, +-1 of a *)
(* float rounding on controller / pitch-bend values, map iteration order)?  *)

MsgClose(m, e) ==
  /\ Len(m) = 3
  /\ m[1] = e[1]
  /\ CASE IsOn(e)  -> m[2] = e[2] /\ m[3] = e[3]
       [] IsOff(e) -> m[2] = e[2]
       [] IsCC(e)  -> m[2] = e[2] /\ Abs(m[3] - e[3]) <= 1
       [] IsPB(e)  -> Abs(PB14(m) - PB14(e)) <= 1
       [] OTHER    -> m = e

Conforms(o, r) ==
  IF r.cmp = "perm"
    THEN IsPerm([i \in 1..Len(o) |-> IF Len(o[i]) = 3 /\ IsOff(o[i]) THEN <<o[i][1], o[i][2], 0>> ELSE o[i]], r.o)
    ELSE Len(o) = Len(r.o) /\ \A i \in 1..Len(o) : MsgClose(o[i], r.o[i])

=============================================================================
