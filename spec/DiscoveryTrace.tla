--------------------------- MODULE DiscoveryTrace ---------------------------
(* C20 trace validation: calls of input.Normalize recorded by `verifh discovery` *)
EXTENDS Discovery
CONSTANT TraceFile
Trace == ndJsonDeserialize(TraceFile)
VARIABLES l, allviol, classes
INSTANCE CaseTrace
=============================================================================
