---------------------------- MODULE LifecycleHist ----------------------------
(***************************************************************************)
(* C16 binding, the parts that are not steps of a device trace:             *)
(*  - data-race reports of Go's race detector from runs of the real device  *)
(*    with its LED and MIDI-input goroutines (a report whose two stacks     *)
(*    both contain a frame of HIDI is an observed violation of              *)
(*    Lifecycle!NoRace on the schedule that was run);                       *)
(*  - isolation: the output of a device processing a script alone equals    *)
(*    its output while other devices process theirs at the same time.       *)
(***************************************************************************)
EXTENDS Integers, Sequences, FiniteSets, TLC, Json

Occ(s, x) == Cardinality({i \in 1..Len(s) : s[i] = x})
SameBag(s, t) == Len(s) = Len(t) /\ \A i \in 1..Len(s) : Occ(s, s[i]) = Occ(t, s[i])

\* step by step the same bytes; the last step is the disconnect clean-up, whose order is not determined
\* (the code ranges over a Go map)
SameOutput(a, b) ==
  /\ Len(a) = Len(b)
  /\ \A i \in 1..(Len(a) - 1) : a[i] = b[i]
  /\ (Len(a) > 0 => SameBag(a[Len(a)], b[Len(b)]))

Judge(ln) ==
  CASE ln.ev = "race" -> {"C16_NoRace"}
    [] ln.ev = "abort" -> {"C16_NoAbort"}
    [] ln.ev = "isolation" -> (IF ln.msg = "" /\ SameOutput(ln.solo, ln.conc) THEN {} ELSE {"C16_Isolation"})
    [] OTHER -> {}

ClassOf(ln) == IF ln.ev = "isolation" THEN "isolation-k" \o ToString(ln.k) ELSE ln.ev
Final(tr) == {}
=============================================================================
