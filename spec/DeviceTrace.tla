---------------------------- MODULE DeviceTrace ----------------------------
(***************************************************************************)
(* Trace validation for the device engine.                                  *)
(*                                                                         *)
(* The trace (ndjson, written by /verif/harness verifh device) is a         *)
(* concatenation of device lives.  Line 1 carries the table of abstract     *)
(* configurations; a "start" line begins a life with configuration c; every *)
(* other line is one processed input with what the REAL code did:           *)
(*   o  the bytes it put on the wire, sg the signals it raised,             *)
(*   st Device.State() afterwards.                                          *)
(* The abstract state evolves from the inputs through Device!Apply; the     *)
(* wire and the logged state are taken from the trace.  Every predicate of  *)
(* DeviceSys is evaluated at every step; failures are recorded (not         *)
(* enforced) in allviol so that one run reports all of them; drift records  *)
(* the steps whose output differs from the model's exact prediction.        *)
(***************************************************************************)
EXTENDS DeviceSys, Json

CONSTANT TraceFile

Trace == ndJsonDeserialize(TraceFile)
Cfgs  == Trace[1].cfgs

VARIABLES
  l,        \* next line to consume
  allviol,  \* set of <<predicate name, line>>
  drift,    \* set of <<line, kind>>
  brs       \* branch name -> number of steps that took it

tvars == <<vars, l, allviol, drift, brs>>

TraceInit ==
  /\ l = 2 /\ allviol = {} /\ drift = {} /\ brs = <<>>
  /\ InitWith(Cfgs[1])

Line == Trace[l]

\* printed by the step that consumes the last line (a POSTCONDITION cannot read variables)
Report(av, dr, b) ==
  l + 1 > Len(Trace) =>
     PrintT(<<"TRACE-RESULT", ToJson([lines |-> Len(Trace), viol |-> av, drift |-> dr,
                                       branches |-> [x \in DOMAIN b |-> b[x]]])>>)

\* at most MaxPerPred recorded failures per predicate (a broken tree fails at nearly every step; the set must stay small)
MaxPerPred == 40
AddViol(av, names, line) ==
  av \cup {<<n, line>> : n \in {x \in names : Cardinality({v \in av : v[1] = x}) < MaxPerPred}}

StateLst(ln) == IF "st" \in DOMAIN ln THEN ln.st ELSE NoLst

TraceStart ==
  /\ l <= Len(Trace) /\ Line.ev = "start"
  /\ LET c == Cfgs[Line.c]
         s0 == InitState(c)
         bad == IF /\ Line.st.oct = s0.oct /\ Line.st.semi = s0.semi /\ Line.st.chan = s0.chan
                   /\ Line.st.map = c.maps[s0.map].name
                THEN {} ELSE {<<"C04_State", l>>}
     IN /\ cfg' = c /\ st' = s0 /\ out' = <<>>
        /\ lastIn' = [ev |-> "init"] /\ lastBr' = "Init"
        /\ snd' = {} /\ ccv' = <<>> /\ pb' = <<>> /\ pairAt' = <<>> /\ apairAt' = <<>> /\ pos' = <<>>
        /\ lastTx' = <<>> /\ hap' = [on |-> FALSE, keys |-> {}, axonly |-> TRUE] /\ viol' = {}
        /\ allviol' = allviol \cup bad
        /\ Report(allviol \cup bad, drift, brs)
  /\ l' = l + 1 /\ UNCHANGED <<drift, brs>>

InputOf(ln) ==
  CASE ln.ev \in {"press", "release"} -> [ev |-> ln.ev, k |-> ln.k]
    [] ln.ev = "axis" -> [ev |-> "axis", a |-> ln.a, raw |-> ln.raw]
    [] ln.ev = "disconnect" -> [ev |-> "disconnect"]
    [] ln.ev = "ignored" -> [ev |-> "ignored"]

TraceStep ==
  /\ l <= Len(Trace) /\ Line.ev \in {"press", "release", "axis", "disconnect", "ignored"}
  /\ \E in \in {InputOf(Line)} : \E r \in {Apply(cfg, st, in)} :
        /\ Observe(in, r, Line.o, Line.sg, StateLst(Line))
        /\ LET nv == AddViol(allviol, viol', l)
               nd == IF Cardinality(drift) > 200 THEN drift ELSE drift
                     \cup (IF Conforms(Line.o, r) THEN {} ELSE {<<l, "output">>})
                     \cup (IF "st" \in DOMAIN Line /\ Line.st.notes # Cardinality(DOMAIN r.s.trk) + Cardinality(DOMAIN r.s.atrk)
                             THEN {<<l, "notes">>} ELSE {})
               nb == Inc(brs, r.br)
           IN /\ allviol' = nv /\ drift' = nd /\ brs' = nb
              /\ Report(nv, nd, nb)
  /\ l' = l + 1

\* the engine panicked or stopped taking events: recorded, the life ends here
TraceCrash ==
  /\ l <= Len(Trace) /\ Line.ev \in {"crash", "hang"}
  /\ allviol' = allviol \cup {<<IF Line.ev = "crash" THEN "X_Crash" ELSE "X_Hang", l>>}
  /\ Report(allviol', drift, brs)
  /\ l' = l + 1 /\ UNCHANGED <<vars, drift, brs>>

\* a configuration the parser rejected: nothing ran (the quantifier is "configurations it accepts")
TraceRejected ==
  /\ l <= Len(Trace) /\ Line.ev = "rejected"
  /\ Report(allviol, drift, brs)
  /\ l' = l + 1 /\ UNCHANGED <<vars, allviol, drift, brs>>

TraceNext == TraceStart \/ TraceStep \/ TraceCrash \/ TraceRejected
TraceSpec == TraceInit /\ [][TraceNext]_tvars

\* every line was consumed: the diameter counts the initial state plus one state per line 2..Len
TraceAccepted == TLCGet("stats").diameter = Len(Trace)
=============================================================================
