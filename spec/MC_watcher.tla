------------------------------ MODULE MC_watcher ------------------------------
EXTENDS Watcher
MCFiles == {[name |-> "a.toml", toml |-> TRUE], [name |-> "b.toml", toml |-> TRUE], [name |-> "notes.txt", toml |-> FALSE]}
=============================================================================
