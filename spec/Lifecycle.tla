------------------------------ MODULE Lifecycle ------------------------------
(***************************************************************************)
(* C16: life cycle of one device (Device.ProcessEvents, events.go:326-392,  *)
(* handleOpenrgb, open_rgb.go:328-668): three goroutines                    *)
(*   main    reads input events, handles each under eventProcessMutex (M),  *)
(*           on end of input cancels the context, releases what is still    *)
(*           sounding (clean-up) and waits for the two helpers;             *)
(*   led     connects, then every cycle takes M, reads the playing state    *)
(*           and the trackers, takes externalTrackerMutex (X), reads the    *)
(*           MIDI-input tracker, sends a frame; ends with a red frame;      *)
(*   midiin  tracks MIDI-input notes under X until the context is done.     *)
(* Every access to shared data is two steps (begin, end) so that overlap of *)
(* unsynchronised accesses is a reachable state (lockset formulation).      *)
(*                                                                         *)
(* CleanupLocks = {} is the code as found (clean-up without M: NoRace is    *)
(* violated, the LED goroutine may be reading the note tracker);            *)
(* CleanupLocks = {"M"} is the repaired code.                               *)
(***************************************************************************)
EXTENDS Integers, Sequences, FiniteSets, TLC

CONSTANTS NEvents,      \* key / axis events that arrive before the stream ends (some of them panic: touches ext)
          NMidi,        \* MIDI-input messages offered
          MaxCycles,    \* LED refresh cycles modelled (bound)
          CleanupLocks, \* locks held by the disconnect clean-up: {} or {"M"}
          Unbounded     \* TRUE: the three counters are not counted down - any number of events, MIDI-input messages and
                        \* LED cycles; the state space stays finite (locations, locks, flags, accesses), so TLC's
                        \* exhaustive run then covers lives of every length

Procs == {"main", "led", "midiin"}
None == [var |-> "none", w |-> FALSE, locks |-> {}]

VARIABLES pc, M, X, ctxDone, wg, inputClosed, events, midi, cycles, acc

vars == <<pc, M, X, ctxDone, wg, inputClosed, events, midi, cycles, acc>>

Init == /\ pc = [main |-> "recv", led |-> "connect", midiin |-> "loop"]
        /\ M = "free" /\ X = "free" /\ ctxDone = FALSE /\ wg = 2 /\ inputClosed = FALSE
        /\ events = NEvents /\ midi = NMidi /\ cycles = 0
        /\ acc = [p \in Procs |-> None]

Goto(p, l) == pc' = [pc EXCEPT ![p] = l]
Held(p) == (IF M = p THEN {"M"} ELSE {}) \cup (IF X = p THEN {"X"} ELSE {})
Begin(p, v, w) == acc' = [acc EXCEPT ![p] = [var |-> v, w |-> w, locks |-> Held(p)]]
End(p) == acc' = [acc EXCEPT ![p] = None]

\* ---- environment: the device is unplugged at any moment
CloseInput == /\ ~inputClosed /\ inputClosed' = TRUE
              /\ UNCHANGED <<pc, M, X, ctxDone, wg, events, midi, cycles, acc>>

\* ---- main
MRecvEvent == /\ pc["main"] = "recv" /\ events > 0 /\ ~inputClosed
              /\ events' = (IF Unbounded THEN events ELSE events - 1) /\ Goto("main", "lock")
              /\ UNCHANGED <<M, X, ctxDone, wg, inputClosed, midi, cycles, acc>>
MRecvClosed == /\ pc["main"] = "recv" /\ inputClosed
               /\ ctxDone' = TRUE                                  \* cancel()
               /\ Goto("main", IF "M" \in CleanupLocks THEN "cleanlock" ELSE "clean")
               /\ UNCHANGED <<M, X, wg, inputClosed, events, midi, cycles, acc>>
MLock == /\ pc["main"] = "lock" /\ M = "free" /\ M' = "main" /\ Goto("main", "handle")
         /\ UNCHANGED <<X, ctxDone, wg, inputClosed, events, midi, cycles, acc>>
MHandle == /\ pc["main"] = "handle" /\ Begin("main", "state", TRUE) /\ Goto("main", "handled")
           /\ UNCHANGED <<M, X, ctxDone, wg, inputClosed, events, midi, cycles>>
\* a panic action also resets the MIDI-input tracker, under X
MHandled == /\ pc["main"] = "handled" /\ End("main")
            /\ \/ Goto("main", "unlock")
               \/ Goto("main", "paniclockx")
            /\ UNCHANGED <<M, X, ctxDone, wg, inputClosed, events, midi, cycles>>
MPanicLockX == /\ pc["main"] = "paniclockx" /\ X = "free" /\ X' = "main" /\ Goto("main", "panicext")
               /\ UNCHANGED <<M, ctxDone, wg, inputClosed, events, midi, cycles, acc>>
MPanicExt == /\ pc["main"] = "panicext" /\ Begin("main", "ext", TRUE) /\ Goto("main", "panicdone")
             /\ UNCHANGED <<M, X, ctxDone, wg, inputClosed, events, midi, cycles>>
MPanicDone == /\ pc["main"] = "panicdone" /\ End("main") /\ X' = "free" /\ Goto("main", "unlock")
              /\ UNCHANGED <<M, ctxDone, wg, inputClosed, events, midi, cycles>>
MUnlock == /\ pc["main"] = "unlock" /\ M' = "free" /\ Goto("main", "recv")
           /\ UNCHANGED <<X, ctxDone, wg, inputClosed, events, midi, cycles, acc>>
MCleanLock == /\ pc["main"] = "cleanlock" /\ M = "free" /\ M' = "main" /\ Goto("main", "clean")
              /\ UNCHANGED <<X, ctxDone, wg, inputClosed, events, midi, cycles, acc>>
MClean == /\ pc["main"] = "clean" /\ Begin("main", "state", TRUE) /\ Goto("main", "cleaned")
          /\ UNCHANGED <<M, X, ctxDone, wg, inputClosed, events, midi, cycles>>
MCleaned == /\ pc["main"] = "cleaned" /\ End("main")
            /\ M' = (IF M = "main" THEN "free" ELSE M) /\ Goto("main", "wait")
            /\ UNCHANGED <<X, ctxDone, wg, inputClosed, events, midi, cycles>>
MWait == /\ pc["main"] = "wait" /\ wg = 0 /\ Goto("main", "returned")
         /\ UNCHANGED <<M, X, ctxDone, wg, inputClosed, events, midi, cycles, acc>>

\* ---- led
LConnect == /\ pc["led"] = "connect"
            /\ IF ctxDone THEN /\ wg' = wg - 1 /\ Goto("led", "done")      \* gives up while connecting: no frame at all
                          ELSE /\ Goto("led", "loop") /\ UNCHANGED wg
            /\ UNCHANGED <<M, X, ctxDone, inputClosed, events, midi, cycles, acc>>
LConnectWait == /\ pc["led"] = "connect" /\ ~ctxDone          \* still connecting (250 ms waits that honour the context)
                /\ UNCHANGED vars
LLoop == /\ pc["led"] = "loop"
         /\ IF ctxDone \/ cycles >= MaxCycles THEN Goto("led", IF ctxDone THEN "red" ELSE "loop") ELSE Goto("led", "lockm")
         /\ UNCHANGED <<M, X, ctxDone, wg, inputClosed, events, midi, cycles, acc>>
LLockM == /\ pc["led"] = "lockm" /\ M = "free" /\ M' = "led" /\ cycles' = (IF Unbounded THEN cycles ELSE cycles + 1) /\ Goto("led", "read")
          /\ UNCHANGED <<X, ctxDone, wg, inputClosed, events, midi, acc>>
LRead == /\ pc["led"] = "read" /\ Begin("led", "state", FALSE) /\ Goto("led", "lockx")
         /\ UNCHANGED <<M, X, ctxDone, wg, inputClosed, events, midi, cycles>>
LLockX == /\ pc["led"] = "lockx" /\ X = "free" /\ X' = "led" /\ End("led") /\ Goto("led", "readext")
          /\ UNCHANGED <<M, ctxDone, wg, inputClosed, events, midi, cycles>>
LReadExt == /\ pc["led"] = "readext" /\ Begin("led", "ext", FALSE) /\ Goto("led", "unlockx")
            /\ UNCHANGED <<M, X, ctxDone, wg, inputClosed, events, midi, cycles>>
LUnlockX == /\ pc["led"] = "unlockx" /\ End("led") /\ X' = "free" /\ Goto("led", "trk")
            /\ UNCHANGED <<M, ctxDone, wg, inputClosed, events, midi, cycles>>
\* the note tracker is read after the MIDI-input part (open_rgb.go:638-648), still under M
LTrk == /\ pc["led"] = "trk" /\ Begin("led", "state", FALSE) /\ Goto("led", "send")
        /\ UNCHANGED <<M, X, ctxDone, wg, inputClosed, events, midi, cycles>>
LSend == /\ pc["led"] = "send" /\ End("led") /\ M' = "free" /\ Goto("led", "loop")
         /\ UNCHANGED <<X, ctxDone, wg, inputClosed, events, midi, cycles>>
LRed == /\ pc["led"] = "red" /\ wg' = wg - 1 /\ Goto("led", "done")
        /\ UNCHANGED <<M, X, ctxDone, inputClosed, events, midi, cycles, acc>>

\* ---- midiin
ILoopDone == /\ pc["midiin"] = "loop" /\ ctxDone /\ wg' = wg - 1 /\ Goto("midiin", "done")
             /\ UNCHANGED <<M, X, ctxDone, inputClosed, events, midi, cycles, acc>>
ILoopMsg == /\ pc["midiin"] = "loop" /\ midi > 0 /\ midi' = (IF Unbounded THEN midi ELSE midi - 1) /\ Goto("midiin", "lockx")
            /\ UNCHANGED <<M, X, ctxDone, wg, inputClosed, events, cycles, acc>>
ILockX == /\ pc["midiin"] = "lockx" /\ X = "free" /\ X' = "midiin" /\ Goto("midiin", "write")
          /\ UNCHANGED <<M, ctxDone, wg, inputClosed, events, midi, cycles, acc>>
IWrite == /\ pc["midiin"] = "write" /\ Begin("midiin", "ext", TRUE) /\ Goto("midiin", "unlockx")
          /\ UNCHANGED <<M, X, ctxDone, wg, inputClosed, events, midi, cycles>>
IUnlockX == /\ pc["midiin"] = "unlockx" /\ End("midiin") /\ X' = "free" /\ Goto("midiin", "loop")
            /\ UNCHANGED <<M, ctxDone, wg, inputClosed, events, midi, cycles>>

MainNext == MRecvEvent \/ MRecvClosed \/ MLock \/ MHandle \/ MHandled \/ MPanicLockX \/ MPanicExt \/ MPanicDone \/ MUnlock
            \/ MCleanLock \/ MClean \/ MCleaned \/ MWait
LedNext == LConnect \/ LLoop \/ LLockM \/ LRead \/ LLockX \/ LReadExt \/ LUnlockX \/ LTrk \/ LSend \/ LRed
MidiNext == ILoopDone \/ ILoopMsg \/ ILockX \/ IWrite \/ IUnlockX
Next == CloseInput \/ MainNext \/ LedNext \/ MidiNext \/ LConnectWait

\* Go's select picks among its ready cases at random: with messages always on offer the Done case of the MIDI-input
\* loop is still taken eventually (strong fairness) - needed only when Unbounded
Spec == Init /\ [][Next]_vars /\ WF_vars(MainNext) /\ WF_vars(LedNext) /\ WF_vars(MidiNext) /\ WF_vars(CloseInput)
             /\ SF_vars(ILoopDone)
             \* sync.Mutex does not starve a waiter (starvation mode hands the lock over after 1 ms)
             /\ SF_vars(MLock) /\ SF_vars(MPanicLockX) /\ SF_vars(MCleanLock) /\ SF_vars(LLockM) /\ SF_vars(LLockX) /\ SF_vars(ILockX)

-----------------------------------------------------------------------------
\* no two goroutines touch the same data at the same time, one of them writing, without a common lock
NoRace == \A p, q \in Procs :
            (p # q /\ acc[p].var # "none" /\ acc[p].var = acc[q].var /\ (acc[p].w \/ acc[q].w))
               => acc[p].locks \cap acc[q].locks # {}
\* nothing left behind: when ProcessEvents has returned the helpers are gone
NoLeftover == pc["main"] = "returned" => (pc["led"] = "done" /\ pc["midiin"] = "done")
\* processing ends once the event stream ends, whatever the helpers were doing
Terminates == inputClosed ~> (pc["main"] = "returned")
LocksReleased == pc["main"] = "returned" => (M = "free" /\ X = "free")
=============================================================================
