--------------------------- MODULE HandlerMonitorHistTrace ---------------------------
(* discovery front end: runs recorded by `verifh handlers` *)
EXTENDS HandlerMonitorHist
CONSTANT TraceFile
Trace == ndJsonDeserialize(TraceFile)
VARIABLES l, allviol, classes
INSTANCE CaseTrace
=============================================================================
