-------------------------------- MODULE MC_led --------------------------------
(* Bounded configuration for LED feedback tours: two mappings, three note keys (one goes out of   *)
(* range when transposed), octave / channel / mapping / panic taps, MIDI-input notes on the        *)
(* current and another channel incl. Note Off and Note On with velocity 0; at most MaxHeld keys.   *)
EXTENDS Led, Json

CONSTANTS OctB, SemiB, ChanB, MaxHeld, DumpEdges

MCCfg ==
  [ mode |-> "interrupt", exit |-> <<>>, vel |-> 64, dOct |-> 0, dSemi |-> 0, dChan |-> 0, dMap |-> 1,
    actions |-> [KEY_F1 |-> "octave_down", KEY_F2 |-> "octave_up", KEY_F5 |-> "channel_down", KEY_F6 |-> "channel_up",
                 KEY_F11 |-> "mapping_down", KEY_F12 |-> "mapping_up", KEY_ESC |-> "panic",
                 KEY_F3 |-> "semitone_down", KEY_F4 |-> "semitone_up"],
    maps |-> << [name |-> "M1", axes |-> <<>>,
                 keys |-> [KEY_A |-> [n |-> 60, o |-> 0], KEY_S |-> [n |-> 61, o |-> 0], KEY_D |-> [n |-> 62, o |-> 0]]],
                [name |-> "M2", axes |-> <<>>,
                 keys |-> [KEY_A |-> [n |-> 120, o |-> 0], KEY_D |-> [n |-> 60, o |-> 1]]] >>,
    axinfo |-> <<>> ]

MidiMsgs == {<<144, 60, 100>>, <<145, 60, 100>>, <<128, 60, 0>>, <<145, 60, 0>>, <<145, 62, 1>>, <<129, 62, 64>>}

KeyInputs == {[ev |-> e, k |-> k] : e \in {"press", "release"}, k \in {"KEY_A", "KEY_S", "KEY_D"}}
             \cup {[ev |-> "tap", k |-> k] : k \in DOMAIN MCCfg.actions}
             \cup {[ev |-> "disconnect"]}

Bound(s) == s.oct \in -OctB..OctB /\ s.semi \in -SemiB..SemiB /\ s.chan \in 0..ChanB /\ Cardinality(s.held) <= MaxHeld

Init == InitWith(MCCfg) /\ ext = {} /\ seen = <<>>

\* (a life costs half a second of LED connection phase on the real code: the final red frame is exercised
\* from the states without MIDI-input notes, not from every state)
KeyNext == \E in \in KeyInputs :
             /\ (in.ev = "disconnect" => ext = {})
             /\ Alternates(in) /\ ModelStep(in, Bound)
             /\ ext' = (IF lastBr' = "Panic" THEN {} ELSE ext) /\ UNCHANGED seen

MidiNext == \E m \in MidiMsgs :
              /\ st.phase = "running"
              /\ ext' = MidiInNext(ext, m) /\ ext' # ext
              /\ lastIn' = [ev |-> "midiin", msg |-> m] /\ lastBr' = "MidiIn" /\ out' = <<>> /\ viol' = {}
              /\ UNCHANGED <<cfg, st, snd, ccv, pb, pairAt, apairAt, pos, lastTx, hap, seen>>

Next == KeyNext \/ MidiNext
Spec == Init /\ [][Next]_<<vars, ext, seen>>

ViewLed == <<View, ext>>
ViewStLed == <<st, ext>>

\* panic clears the MIDI-input highlight; nothing else than MIDI input and panic changes it
ExtOnlyByMidiOrPanic == [][ext' # ext => (lastBr' \in {"MidiIn", "Panic"})]_<<vars, ext, seen>>

ASSUME DumpEdges => PrintT(ToJson([init |-> "init", cfg |-> MCCfg]))
Dump == DumpEdges => PrintT(ToJson([f |-> ToString(<<st, ext>>), i |-> lastIn', t |-> ToString(<<st', ext'>>), d |-> st'.phase = "done"]))
=============================================================================
