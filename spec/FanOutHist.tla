----------------------------- MODULE FanOutHist -----------------------------
(***************************************************************************)
(* C15 binding: histories recorded from the real utils.DynamicFanOut and    *)
(* from the real relay midi.ProcessMidiEvents, judged with the properties   *)
(* of FanOut.tla restated over what an orchestrator can observe:            *)
(* logical call / return times of SpawnOutput, DespawnOutput and of the     *)
(* injection of each message (a send on the unbuffered-or-small input       *)
(* channel returns once the runner has taken every earlier message), and    *)
(* what every consumer received.  Lock acquisitions and the individual      *)
(* sends are the unlogged internal steps of FanOut.tla.                     *)
(***************************************************************************)
EXTENDS Integers, Sequences, FiniteSets, TLC, Json

Range(s) == {s[i] : i \in 1..Len(s)}
Increasing(s) == \A i \in 1..(Len(s) - 1) : s[i] < s[i + 1]

Ops(ln, kind) == {o \in Range(ln.ops) : o.op = kind}
SpawnOf(ln, c) == CHOOSE o \in Ops(ln, "spawn") : o.c = c
Returned(o) == o.ret > 0
\* Message ids are consecutive in injection order.  The input channel buffers ln.cap messages, so the
\* return of the injection of message j means the runner has taken message j - cap, hence finished the
\* delivery round of every message below j - cap: the round of m was over before logical time t if
\* some message beyond m + cap had been injected before t
RoundOverBefore(ln, m, t) == \E o \in Ops(ln, "inject") : o.m > m + ln.cap /\ Returned(o) /\ o.ret < t

FanJudge(ln) ==
  LET consumers == DOMAIN ln.recv
      injected == {o.m : o \in Ops(ln, "inject")}
  IN (IF ln.crash = "" THEN {} ELSE {"C15_NoSendOnClosed"})
     \* in order, exactly once
     \cup (IF \A c \in consumers : Increasing(ln.recv[c]) THEN {} ELSE {"C15_PerConsumerOrder"})
     \* only what was injected, and nothing whose round was over before the consumer asked to be attached
     \cup (IF \A c \in consumers : \A m \in Range(ln.recv[c]) :
                m \in injected /\ ~RoundOverBefore(ln, m, SpawnOf(ln, c).call)
           THEN {} ELSE {"C15_NoExtra"})
     \* every message injected after the consumer was attached reaches it (consumers attached and reading at the flush)
     \cup (IF \A c \in Range(ln.atflush) : \A o \in Ops(ln, "inject") :
                (o.m \notin Range(ln.sentinels) /\ Returned(SpawnOf(ln, c)) /\ o.call > SpawnOf(ln, c).ret) => o.m \in Range(ln.recv[c])
           THEN {} ELSE {"C15_DeliveredWhileConnected"})
     \* removing (and attaching) a device always completes, provided stopped devices get detached (the manager does)
     \cup (IF ln.fair => \A o \in Ops(ln, "despawn") : o.ret # -1 THEN {} ELSE {"C15_DespawnCompletes"})
     \cup (IF ln.fair => \A o \in Ops(ln, "spawn") : o.ret # -1 THEN {} ELSE {"C15_SpawnCompletes"})

\* relay: the port receives an interleaving of the emitters' streams, byte for byte, nothing else
EmitterOf(msg) == msg[1] % 16
RelayJudge(ln) ==
  LET port == ln.port
      Sub(e) == SelectSeq(port, LAMBDA m : Len(m) = 3 /\ EmitterOf(m) = e)
      Idx(m) == m[2] + 128 * m[3]
      Status(i, e) == (CASE i % 3 = 0 -> 144 [] i % 3 = 1 -> 176 [] OTHER -> 224) + e
  IN (IF ln.timeout THEN {"C15_RelayDelivers"} ELSE {})
     \cup (IF Len(port) = ln.emitters * ln.per /\ \A i \in 1..Len(port) : Len(port[i]) = 3 THEN {} ELSE {"C15_RelayExactlyOnce"})
     \cup (IF \A e \in 0..(ln.emitters - 1) :
                LET s == Sub(e) IN Len(s) = ln.per /\ \A i \in 1..Len(s) : Idx(s[i]) = i - 1 /\ s[i][1] = Status(i - 1, e)
           THEN {} ELSE {"C15_RelayOrder"})
     \cup (IF ln.ingot = ln.insent THEN {} ELSE {"C15_RelayInput"})

Judge(ln) == CASE ln.ev = "fanout" -> FanJudge(ln) [] ln.ev = "relay" -> RelayJudge(ln) [] OTHER -> {}

ClassOf(ln) ==
  IF ln.ev = "fanout"
    THEN (IF \E o \in Range(ln.ops) : o.op = "stop" THEN "fanout-with-stopped-consumer" ELSE "fanout-all-reading")
    ELSE ln.ev
Final(tr) == {}
=============================================================================
