------------------------- MODULE HandlerMonitorHist -------------------------
(***************************************************************************)
(* Binding of HandlerMonitor.tla: runs of the real input.monitorNewHandlers *)
(* over a private /dev/input (tmpfs in a mount namespace), judged segment   *)
(* by segment.  A segment is what happened between two quiet points (the    *)
(* harness waits many scan periods at each): the nodes present at its start *)
(* (pre), the add / remove operations, the nodes present at its end (now)   *)
(* and the batches received meanwhile.                                      *)
(* OBS_ predicates are outside the listed properties: they are reported as    *)
(* observations, never as violations.                                       *)
(***************************************************************************)
EXTENDS Integers, Sequences, FiniteSets, TLC, Json

Count(seg, n) == Cardinality({i \in 1..Len(seg.got) : \E j \in 1..Len(seg.got[i]) : seg.got[i][j] = n})
Adds(seg, n) == Cardinality({i \in 1..Len(seg.ops) : seg.ops[i].op = "add" /\ seg.ops[i].n = n})
Removed(seg, n) == \E i \in 1..Len(seg.ops) : seg.ops[i].op = "rm" /\ seg.ops[i].n = n
ToSet(s) == {s[i] : i \in 1..Len(s)}
AllNames(seg) == ToSet(seg.pre) \cup ToSet(seg.now) \cup {seg.ops[i].n : i \in 1..Len(seg.ops)}
                 \cup UNION {ToSet(seg.got[i]) : i \in 1..Len(seg.got)}
\* as the code has it: any non-directory whose name starts with "event" ("event" itself and "eventual" included)
IsEventNode(n) == Len(n) >= 5 /\ SubSeq(n, 1, 5) = "event"

JudgeSeg(seg) ==
  LET pre == ToSet(seg.pre)
      now == ToSet(seg.now)
  IN (IF \A n \in now \ pre : IsEventNode(n) => Count(seg, n) >= 1 THEN {} ELSE {"OBS_HM_Reported"})
     \cup (IF \A n \in pre \cap now : ~Removed(seg, n) => Count(seg, n) = 0 THEN {} ELSE {"OBS_HM_NoDuplicate"})
     \cup (IF \A n \in AllNames(seg) : Count(seg, n) <= Adds(seg, n) THEN {} ELSE {"OBS_HM_OnlyNew"})
     \cup (IF \A n \in AllNames(seg) : Count(seg, n) > 0 => IsEventNode(n) THEN {} ELSE {"OBS_HM_OnlyEventNodes"})
     \* a node that went away and came back within the segment, the absence lasting a quiet point: demanded by
     \* the harness as two segments, so nothing more here

Judge(ln) ==
  IF ln.ev # "handlers" THEN {}
  ELSE UNION {JudgeSeg(ln.segs[i]) : i \in 1..Len(ln.segs)}
       \cup (IF ln.reading /\ ~ln.closed THEN {"OBS_HM_StreamEnds"} ELSE {})
       \cup (IF ~ln.reading /\ ln.leak THEN {"OBS_HM_LeakWhenConsumerStops"} ELSE {})

ClassOf(ln) == IF ln.ev = "handlers" THEN (IF ln.reading THEN "consumer-reads-on" ELSE "consumer-stops-at-cancel") ELSE ln.ev
Final(tr) == {}
=============================================================================
