#!/bin/sh
# Offline setup: syntax-check the specifications, byte-compile the Python tools, build the
# stand-alone Go tool and warm Go's build cache with a harness build of the current /repo.
set -e
cd "$(dirname "$0")"
export GOFLAGS=-mod=mod GOPROXY=off GOSUMDB=off GOTOOLCHAIN=local
python3 -m compileall -q lib tools check >/dev/null
T=$(mktemp -d /var/tmp/hidi-verif-setup.XXXXXX)
trap 'rm -rf "$T"' EXIT
cp spec/*.tla "$T"/
for m in spec/*.tla; do
  b=$(basename "$m")
  (cd "$T" && java -cp /opt/veriftools/tla/tla2tools.jar:/opt/veriftools/tla/CommunityModules-deps.jar tla2sany.SANY "$b" >"$T/sany.log" 2>&1) || { cat "$T/sany.log"; echo "SANY failed on $b"; exit 1; }
done
(cd tools/tourgen && go build -o "$T/tourgen" .)
rsync -a --exclude .git /repo/ "$T/repo/"
cp -r harness/. "$T/repo/"
(cd "$T/repo" && go build -tags verif -o "$T/verifh" ./internal/verif/verifh)
echo "setup ok"
