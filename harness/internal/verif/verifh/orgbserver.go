//go:build verif

package main

import (
	"bytes"
	"encoding/binary"
	"fmt"
	"io"
	"net"
	"sync"
	"sync/atomic"
)

// fakeORGB is a minimal OpenRGB SDK server: one keyboard controller with a given LED list; it
// records every UpdateLEDs frame.
type fakeORGB struct {
	ln       net.Listener
	Port     int
	location string
	leds     []string
	name     string
	mu       sync.Mutex
	frames   [][][3]int
	cond     *sync.Cond
	conns    int
	// mode: "" = the controller is listed; "nocontroller" = the server lists no controller at all; "other" = it
	// lists one at another location (the device keeps searching for its own for two seconds)
	mode string
	reqs int64 // requests received
}

func newFakeORGB(name, location string, leds []string) (*fakeORGB, error) {
	ln, err := net.Listen("tcp", "127.0.0.1:0")
	if err != nil {
		return nil, err
	}
	s := &fakeORGB{ln: ln, Port: ln.Addr().(*net.TCPAddr).Port, location: location, leds: leds, name: name}
	s.cond = sync.NewCond(&s.mu)
	go s.accept()
	return s, nil
}

func (s *fakeORGB) Close() { s.ln.Close() }

func (s *fakeORGB) accept() {
	for {
		c, err := s.ln.Accept()
		if err != nil {
			return
		}
		s.mu.Lock()
		s.conns++
		s.mu.Unlock()
		go s.serve(c)
	}
}

func putString(b *bytes.Buffer, str string) {
	binary.Write(b, binary.LittleEndian, uint16(len(str)+1))
	b.WriteString(str)
	b.WriteByte(0)
}

func (s *fakeORGB) deviceData() []byte {
	var b bytes.Buffer
	binary.Write(&b, binary.LittleEndian, uint32(0)) // data size (patched below)
	binary.Write(&b, binary.LittleEndian, uint32(5)) // type: keyboard
	loc := s.location
	if s.mode == "other" {
		loc = "/dev/hidraw99"
	}
	for _, str := range []string{s.name, "verif keyboard", "1.0", "0001", "HID: " + loc} {
		putString(&b, str)
	}
	binary.Write(&b, binary.LittleEndian, uint16(1)) // one mode
	binary.Write(&b, binary.LittleEndian, uint32(0)) // active mode
	putString(&b, "Direct")
	for i := 0; i < 9; i++ {
		binary.Write(&b, binary.LittleEndian, uint32(0))
	}
	binary.Write(&b, binary.LittleEndian, uint16(0)) // mode colours
	binary.Write(&b, binary.LittleEndian, uint16(1)) // one zone
	putString(&b, "Keyboard")
	binary.Write(&b, binary.LittleEndian, uint32(1))
	binary.Write(&b, binary.LittleEndian, uint32(len(s.leds)))
	binary.Write(&b, binary.LittleEndian, uint32(len(s.leds)))
	binary.Write(&b, binary.LittleEndian, uint32(len(s.leds)))
	binary.Write(&b, binary.LittleEndian, uint16(0)) // matrix size
	binary.Write(&b, binary.LittleEndian, uint16(len(s.leds)))
	for _, l := range s.leds {
		putString(&b, l)
		b.Write([]byte{0, 0, 0, 0})
	}
	binary.Write(&b, binary.LittleEndian, uint16(len(s.leds)))
	for range s.leds {
		b.Write([]byte{0, 0, 0, 0})
	}
	out := b.Bytes()
	binary.LittleEndian.PutUint32(out, uint32(len(out)))
	return out
}

func (s *fakeORGB) reply(c net.Conn, dev, cmd uint32, body []byte) error {
	var b bytes.Buffer
	b.WriteString("ORGB")
	binary.Write(&b, binary.LittleEndian, dev)
	binary.Write(&b, binary.LittleEndian, cmd)
	binary.Write(&b, binary.LittleEndian, uint32(len(body)))
	// the client reads the header and the body with one Read each: two writes
	if _, err := c.Write(b.Bytes()); err != nil {
		return err
	}
	_, err := c.Write(body)
	return err
}

func (s *fakeORGB) serve(c net.Conn) {
	defer c.Close()
	hdr := make([]byte, 16)
	for {
		if _, err := io.ReadFull(c, hdr); err != nil {
			return
		}
		if string(hdr[:4]) != "ORGB" {
			return
		}
		dev := binary.LittleEndian.Uint32(hdr[4:])
		cmd := binary.LittleEndian.Uint32(hdr[8:])
		n := binary.LittleEndian.Uint32(hdr[12:])
		body := make([]byte, n)
		if _, err := io.ReadFull(c, body); err != nil {
			return
		}
		atomic.AddInt64(&s.reqs, 1)
		switch cmd {
		case 0: // controller count
			out := make([]byte, 4)
			binary.LittleEndian.PutUint32(out, map[bool]uint32{true: 0, false: 1}[s.mode == "nocontroller"])
			if s.reply(c, dev, cmd, out) != nil {
				return
			}
		case 1: // controller data
			if s.reply(c, dev, cmd, s.deviceData()) != nil {
				return
			}
		case 1050: // UpdateLEDs: 4 bytes size prefix, 2 bytes count, 4 bytes per colour (parsed by length:
			// the client truncates the size fields to one byte)
			if len(body) < 6 {
				continue
			}
			k := (len(body) - 6) / 4
			fr := make([][3]int, k)
			for i := 0; i < k; i++ {
				o := 6 + 4*i
				fr[i] = [3]int{int(body[o]), int(body[o+1]), int(body[o+2])}
			}
			s.mu.Lock()
			s.frames = append(s.frames, fr)
			s.cond.Broadcast()
			s.mu.Unlock()
		}
	}
}

func (s *fakeORGB) frameCount() int {
	s.mu.Lock()
	defer s.mu.Unlock()
	return len(s.frames)
}

func (s *fakeORGB) lastFrame() [][3]int {
	s.mu.Lock()
	defer s.mu.Unlock()
	if len(s.frames) == 0 {
		return nil
	}
	return s.frames[len(s.frames)-1]
}

var _ = fmt.Sprint
