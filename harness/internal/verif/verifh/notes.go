//go:build verif

package main

import (
	"bufio"
	"encoding/json"
	"fmt"
	"math/rand"
	"os"
	"strconv"
	"strings"
	"sync"

	"github.com/gethiox/HIDI/internal/pkg/midi"
	"github.com/gethiox/HIDI/internal/pkg/midi/device/config"
)

func init() { extraCommands["notes"] = cmdNotes }

const noteAlphabet = "ABCDEFGHIJKLMNOPQRSTUVWXYZabcdefghijklmnopqrstuvwxyz0123456789#- "

type noteLine struct {
	Ev    string `json:"ev"`
	S     string `json:"s"`
	Ok    bool   `json:"ok"`
	V     int    `json:"v"`
	N     int    `json:"n"`
	Pitch string `json:"pitch,omitempty"`
	Oct   int    `json:"oct"`
	Msg   string `json:"msg,omitempty"`
	Tried int64  `json:"tried,omitempty"`
	Off   int    `json:"off"`
	Want  int    `json:"want"` // ev = "cfg": the channel offset written behind the name (-1: none)
}

// cfgNote reads s as the note of a key in a configuration - the place where note names are used: `KEY_A = "<s>"` or
// `KEY_A = "<s>,<offset>"` in an otherwise minimal valid description, through the real config.ParseData
func cfgNote(s string, offset int) (l noteLine) {
	l = noteLine{Ev: "cfg", S: s, Want: offset}
	defer func() {
		if p := recover(); p != nil {
			l = noteLine{Ev: "crash", S: s, Msg: fmt.Sprint(p)}
		}
	}()
	val := s
	if offset >= 0 {
		val = fmt.Sprintf("%s,%d", s, offset)
	}
	text := "collision_mode = \"off\"\nexit_sequence = []\n[identifier]\n  bus = 0\n[defaults]\n  octave = 0\n  semitone = 0\n" +
		"  channel = 1\n  mapping = \"P\"\n  velocity = 64\n[action_mapping]\n[[mapping]]\n  name = \"P\"\n  [[mapping.keys]]\n" +
		"    subhandler = \"\"\n    [mapping.keys.map]\n      KEY_A = \"" + val + "\"\n"
	c, err := config.ParseData([]byte(text))
	if err != nil || len(c.KeyMappings) != 1 {
		return l
	}
	for _, k := range c.KeyMappings[0].Midi[""] {
		l.Ok, l.V, l.Off = true, int(k.Note), int(k.ChannelOffset)
	}
	return l
}

func hasLetter(s string) bool {
	for _, c := range s {
		if (c >= 'a' && c <= 'z') || (c >= 'A' && c <= 'Z') {
			return true
		}
	}
	return false
}

func s2n(s string) (l noteLine) {
	l = noteLine{Ev: "s2n", S: s}
	defer func() {
		if p := recover(); p != nil {
			l = noteLine{Ev: "crash", S: s, Msg: fmt.Sprint(p)}
		}
	}()
	v, err := config.StringToNote(s)
	if err == nil {
		l.Ok, l.V = true, int(v)
	}
	return l
}

// verifh notes <maxlen> <exhaustive-to-len> <seed> <samples> <mustlog.json> <out.ndjson>
func cmdNotes(args []string) error {
	if len(args) != 6 {
		return fmt.Errorf("usage: verifh notes <maxlen> <sampledlen> <seed> <samples> <mustlog.json> <out.ndjson>")
	}
	maxlen, _ := strconv.Atoi(args[0])
	sampledLen, _ := strconv.Atoi(args[1])
	seed, _ := strconv.ParseInt(args[2], 10, 64)
	samples, _ := strconv.Atoi(args[3])
	var must []string
	if raw, err := os.ReadFile(args[4]); err != nil {
		return err
	} else if err := json.Unmarshal(raw, &must); err != nil {
		return err
	}
	mustSet := map[string]bool{}
	for _, s := range must {
		mustSet[s] = true
	}
	f, err := os.Create(args[5])
	if err != nil {
		return err
	}
	defer f.Close()
	w := bufio.NewWriter(f)
	defer w.Flush()
	enc := json.NewEncoder(w)
	var mu sync.Mutex
	var tried int64
	emit := func(l noteLine) {
		mu.Lock()
		enc.Encode(l)
		mu.Unlock()
	}
	logged := map[string]bool{}
	try := func(s string, always bool) {
		l := s2n(s)
		if l.Ok || l.Ev == "crash" || always || mustSet[s] {
			mu.Lock()
			dup := logged[s]
			logged[s] = true
			mu.Unlock()
			if !dup {
				emit(l)
				if hasLetter(s) && l.Ev == "s2n" {
					emit(cfgNote(s, -1))
					emit(cfgNote(s, []int{0, 3, 15}[len(s)%3]))
				}
			}
		}
	}
	// exhaustive: every string of length <= maxlen over the alphabet, split by first character
	A := []byte(noteAlphabet)
	try("", true)
	var wg sync.WaitGroup
	counts := make([]int64, len(A))
	for i := range A {
		wg.Add(1)
		go func(i int) {
			defer wg.Done()
			buf := make([]byte, 0, maxlen)
			var rec func(int)
			rec = func(depth int) {
				counts[i]++
				try(string(buf), false)
				if depth == maxlen {
					return
				}
				for _, c := range A {
					buf = append(buf, c)
					rec(depth + 1)
					buf = buf[:len(buf)-1]
				}
			}
			buf = append(buf, A[i])
			rec(1)
		}(i)
	}
	wg.Wait()
	for _, c := range counts {
		tried += c
	}
	tried++
	// names that must be tried whatever their length
	for _, s := range must {
		try(s, true)
	}
	// seeded: longer strings, and one-character edits of the valid names
	rng := rand.New(rand.NewSource(seed))
	for i := 0; i < samples; i++ {
		var s string
		switch rng.Intn(4) {
		case 0: // random string of the next lengths
			n := maxlen + 1 + rng.Intn(sampledLen-maxlen+1)
			b := make([]byte, n)
			for j := range b {
				b[j] = A[rng.Intn(len(A))]
			}
			s = string(b)
		case 1: // insert a character into a valid name
			v := must[rng.Intn(len(must))]
			p := rng.Intn(len(v) + 1)
			s = v[:p] + string(A[rng.Intn(len(A))]) + v[p:]
		case 2: // substitute
			v := []byte(must[rng.Intn(len(must))])
			v[rng.Intn(len(v))] = byte(rng.Intn(256))
			s = string(v)
		default: // concatenate two valid names / add unicode, newline
			v := must[rng.Intn(len(must))]
			s = []string{v + must[rng.Intn(len(must))], v + "\n", "\n" + v, v + "♯", "ç" + v, v + v}[rng.Intn(6)]
		}
		tried++
		try(s, true)
	}
	for n := 0; n < 128; n++ {
		emit(noteLine{Ev: "n2s", N: n, Pitch: config.NoteToPitch(byte(n)), Oct: config.NoteToOctave(byte(n))})
	}
	// the name as the application displays it (midi.Event.String, what the log and the user interface show), alone and
	// from eight goroutines at once (every device formats its own events): blanks removed it must be the note's name
	display := func(n int) string {
		s := midi.NoteEvent(midi.NoteOn, 0, byte(n), 1).String()
		const head = "Note On : "
		if !strings.HasPrefix(s, head) || len(s) < len(head)+4 {
			return "?" + s
		}
		return strings.ReplaceAll(s[len(head):len(head)+4], " ", "")
	}
	for n := 0; n < 128; n++ {
		emit(noteLine{Ev: "disp", N: n, S: display(n)})
	}
	var dwg sync.WaitGroup
	var dmu sync.Mutex
	wrong := map[int]string{}
	right := map[int]string{}
	for g := 0; g < 8; g++ {
		dwg.Add(1)
		go func(g int) {
			defer dwg.Done()
			for r := 0; r < 300; r++ {
				for i := 0; i < 128; i++ {
					n := (i*37 + g*11 + r) % 128
					want := config.NoteToPitch(byte(n)) + strconv.Itoa(config.NoteToOctave(byte(n)))
					if s := display(n); s != want {
						dmu.Lock()
						wrong[n] = s
						dmu.Unlock()
					} else if r == 0 {
						dmu.Lock()
						right[n] = s
						dmu.Unlock()
					}
				}
			}
		}(g)
	}
	dwg.Wait()
	for n := 0; n < 128; n++ {
		s, bad := wrong[n]
		if !bad {
			s = right[n]
		}
		emit(noteLine{Ev: "disp", N: n, S: s, Msg: "concurrent"})
	}
	emit(noteLine{Ev: "summary", Tried: tried})
	return nil
}
