//go:build verif

package main

import (
	"bufio"
	"context"
	"encoding/base64"
	"encoding/json"
	"fmt"
	"math/rand"
	"os"
	"sort"
	"strconv"
	"sync"
	"sync/atomic"
	"time"

	"github.com/gethiox/HIDI/internal/pkg/logger"
	"github.com/gethiox/HIDI/internal/pkg/midi/device/config"
)

func init() {
	extraCommands["parse"] = cmdParse
	extraCommands["parsefuzz"] = cmdParseFuzz
}

type parseCase struct {
	ID   int             `json:"id"`
	Kind string          `json:"kind"`
	Toml string          `json:"toml"`
	Desc json.RawMessage `json:"desc,omitempty"`
}

type projKey struct {
	Sub  string `json:"sub"`
	Code int    `json:"code"`
	N    int    `json:"n"`
	O    int    `json:"o"`
}
type projAnalog struct {
	Sub    string `json:"sub"`
	Code   int    `json:"code"`
	Type   string `json:"type"`
	CC     int    `json:"cc"`
	CCN    int    `json:"ccn"`
	Note   int    `json:"note"`
	NoteN  int    `json:"noten"`
	Off    int    `json:"off"`
	OffN   int    `json:"offn"`
	Act    string `json:"act"`
	ActN   string `json:"actn"`
	Flip   bool   `json:"flip"`
	Bidi   bool   `json:"bidi"`
	Centre bool   `json:"centre"`
}
type projDz struct {
	Sub  string `json:"sub"`
	Code int    `json:"code"`
	V    string `json:"v"`
}
type projDd struct {
	Sub string `json:"sub"`
	V   string `json:"v"`
}
type projMap struct {
	Name   string       `json:"name"`
	Keys   []projKey    `json:"keys"`
	Analog []projAnalog `json:"analog"`
	Dz     []projDz     `json:"dz"`
	Dd     []projDd     `json:"dd"`
}
type projAction struct {
	Code int    `json:"code"`
	A    string `json:"a"`
}
type proj struct {
	Mode  string `json:"mode"`
	Exit  []int  `json:"exit"`
	Ident struct {
		Bus     int    `json:"bus"`
		Vendor  int    `json:"vendor"`
		Product int    `json:"product"`
		Version int    `json:"version"`
		Uniq    string `json:"uniq"`
	} `json:"ident"`
	Defaults struct {
		Octave   int `json:"octave"`
		Semitone int `json:"semitone"`
		Channel  int `json:"channel"`
		Mapping  int `json:"mapping"`
		Velocity int `json:"velocity"`
	} `json:"defaults"`
	Actions []projAction      `json:"actions"`
	Colors  map[string][3]int `json:"colors"`
	Maps    []projMap         `json:"maps"`
}

func fstr(f float64) string { return strconv.FormatFloat(f, 'g', -1, 64) }

func project(c *config.Config) *proj {
	p := &proj{Mode: string(c.CollisionMode), Exit: []int{}, Actions: []projAction{}, Maps: []projMap{}}
	for _, k := range c.ExitSequence {
		p.Exit = append(p.Exit, int(k))
	}
	p.Ident.Bus, p.Ident.Vendor, p.Ident.Product, p.Ident.Version, p.Ident.Uniq = int(c.ID.Bus), int(c.ID.Vendor), int(c.ID.Product), int(c.ID.Version), c.Uniq
	p.Defaults.Octave, p.Defaults.Semitone, p.Defaults.Channel, p.Defaults.Mapping, p.Defaults.Velocity =
		c.Defaults.Octave, c.Defaults.Semitone, c.Defaults.Channel, c.Defaults.Mapping, c.Defaults.Velocity
	for code, a := range c.ActionMapping {
		p.Actions = append(p.Actions, projAction{int(code), string(a)})
	}
	sort.Slice(p.Actions, func(i, j int) bool { return p.Actions[i].Code < p.Actions[j].Code })
	col := c.OpenRGB.Colors
	rgb := func(r, g, b byte) [3]int { return [3]int{int(r), int(g), int(b)} }
	p.Colors = map[string][3]int{
		"white": rgb(col.White.Red, col.White.Green, col.White.Blue), "black": rgb(col.Black.Red, col.Black.Green, col.Black.Blue),
		"c": rgb(col.C.Red, col.C.Green, col.C.Blue), "unavailable": rgb(col.Unavailable.Red, col.Unavailable.Green, col.Unavailable.Blue),
		"other": rgb(col.Other.Red, col.Other.Green, col.Other.Blue), "active": rgb(col.Active.Red, col.Active.Green, col.Active.Blue),
		"active_external": rgb(col.ActiveExternal.Red, col.ActiveExternal.Green, col.ActiveExternal.Blue),
	}
	for _, m := range c.KeyMappings {
		pm := projMap{Name: m.Name, Keys: []projKey{}, Analog: []projAnalog{}, Dz: []projDz{}, Dd: []projDd{}}
		for sub, keys := range m.Midi {
			for code, k := range keys {
				pm.Keys = append(pm.Keys, projKey{sub, int(code), int(k.Note), int(k.ChannelOffset)})
			}
		}
		for sub, axes := range m.Analog {
			for code, a := range axes {
				pm.Analog = append(pm.Analog, projAnalog{sub, int(code), string(a.MappingType), int(a.CC), int(a.CCNeg), int(a.Note),
					int(a.NoteNeg), int(a.ChannelOffset), int(a.ChannelOffsetNeg), string(a.Action), string(a.ActionNeg), a.FlipAxis,
					a.Bidirectional, a.DeadzoneAtCenter})
			}
		}
		for sub, dz := range m.Deadzones {
			for code, v := range dz {
				pm.Dz = append(pm.Dz, projDz{sub, int(code), fstr(v)})
			}
		}
		for sub, v := range m.DefaultDeadzone {
			pm.Dd = append(pm.Dd, projDd{sub, fstr(v)})
		}
		p.Maps = append(p.Maps, pm)
	}
	return p
}

type parseResult struct {
	outcome string
	msg     string
	cfg     *config.Config
}

// parseWatched runs ParseData with a panic guard and a watchdog.
// noteCurrent records the input about to be parsed in the file named by VERIFH_CUR, so that the driver can tell
// which input took the process down when the runtime aborts (a stack overflow or a concurrent map write is a
// fatal error that no recover() sees).  Only meaningful when inputs are parsed one at a time.
func noteCurrent(id int, kind string, data []byte) {
	if p := os.Getenv("VERIFH_CUR"); p != "" {
		b, _ := json.Marshal(parseLine{Ev: "parse", ID: id, Kind: kind, Outcome: "fatal", Input: base64.StdEncoding.EncodeToString(data)})
		os.WriteFile(p, b, 0o666)
	}
}

func parseWatched(data []byte, limit time.Duration) parseResult {
	ch := make(chan parseResult, 1)
	go func() {
		defer func() {
			if p := recover(); p != nil {
				ch <- parseResult{outcome: "panic", msg: fmt.Sprint(p)}
			}
		}()
		c, err := config.ParseData(data)
		if err != nil {
			ch <- parseResult{outcome: "error", msg: err.Error()}
			return
		}
		ch <- parseResult{outcome: "config", cfg: &c}
	}()
	select {
	case r := <-ch:
		return r
	case <-time.After(limit):
		return parseResult{outcome: "timeout", msg: "ParseData did not return within " + limit.String()}
	}
}

type parseLine struct {
	Ev      string          `json:"ev"`
	ID      int             `json:"id"`
	Kind    string          `json:"kind"`
	Outcome string          `json:"outcome"`
	Msg     string          `json:"msg,omitempty"`
	Desc    json.RawMessage `json:"desc,omitempty"`
	Proj    *proj           `json:"proj,omitempty"`
	Input   string          `json:"input_b64,omitempty"`
}

// verifh parse <cases.json> <out.ndjson>
func cmdParse(args []string) error {
	if len(args) != 2 {
		return fmt.Errorf("usage: verifh parse <cases.json> <out.ndjson>")
	}
	go func() {
		for range logger.Messages {
		}
	}()
	raw, err := os.ReadFile(args[0])
	if err != nil {
		return err
	}
	var cases []parseCase
	if err := json.Unmarshal(raw, &cases); err != nil {
		return err
	}
	f, err := os.Create(args[1])
	if err != nil {
		return err
	}
	defer f.Close()
	w := bufio.NewWriterSize(f, 1<<20)
	defer w.Flush()
	enc := json.NewEncoder(w)
	timeouts := 0
	for _, c := range cases {
		if timeouts >= 3 {
			// the parser is wedged (every call hangs): the remaining cases would only repeat the same verdict
			enc.Encode(parseLine{Ev: "parse", ID: c.ID, Kind: c.Kind, Outcome: "timeout", Msg: "skipped: three earlier calls did not return"})
			break
		}
		noteCurrent(c.ID, c.Kind, []byte(c.Toml))
		r := parseWatched([]byte(c.Toml), 5*time.Second)
		if r.outcome == "timeout" {
			timeouts++
		}
		if r.outcome == "panic" || r.outcome == "timeout" {
			w.Flush()
		}
		l := parseLine{Ev: "parse", ID: c.ID, Kind: c.Kind, Outcome: r.outcome, Msg: r.msg, Desc: c.Desc}
		if r.cfg != nil && len(c.Desc) > 0 {
			l.Proj = project(r.cfg)
		}
		if r.outcome == "panic" || r.outcome == "timeout" {
			l.Input = base64.StdEncoding.EncodeToString([]byte(c.Toml))
		}
		if err := enc.Encode(l); err != nil {
			return err
		}
	}
	return nil
}

// verifh parsefuzz <seed> <random-per-file> <out.ndjson> <file>...
// Byte-level mutations of each file: truncation at every byte, deletion and duplication of every
// line, byte flips, random splices and random bytes up to 64 KiB.  Only the cases that are neither a
// configuration nor an error are logged one by one; the rest are counted.
func cmdParseFuzz(args []string) error {
	if len(args) < 4 {
		return fmt.Errorf("usage: verifh parsefuzz <seed> <random-per-file> <out.ndjson> <file>...")
	}
	go func() {
		for range logger.Messages {
		}
	}()
	seed, _ := strconv.ParseInt(args[0], 10, 64)
	nrand, _ := strconv.Atoi(args[1])
	f, err := os.Create(args[2])
	if err != nil {
		return err
	}
	defer f.Close()
	w := bufio.NewWriter(f)
	defer w.Flush()
	enc := json.NewEncoder(w)
	var mu sync.Mutex
	counts := map[string]int{}
	logged := 0
	id := 0
	var wedged int32
	serial := os.Getenv("VERIFH_SERIAL") != "" // one input at a time, each noted (rerun after a runtime abort)
	try := func(kind string, data []byte) {
		if atomic.LoadInt32(&wedged) >= 3 {
			return
		}
		if serial {
			noteCurrent(0, kind, data)
		}
		r := parseWatched(data, 5*time.Second)
		if r.outcome == "timeout" {
			atomic.AddInt32(&wedged, 1)
		}
		mu.Lock()
		defer mu.Unlock()
		id++
		counts[kind+":"+r.outcome]++
		if r.outcome == "panic" || r.outcome == "timeout" {
			if logged < 200 {
				logged++
				enc.Encode(parseLine{Ev: "parse", ID: id, Kind: kind, Outcome: r.outcome, Msg: r.msg, Input: base64.StdEncoding.EncodeToString(data)})
			}
		}
	}
	var wg sync.WaitGroup
	sem := make(chan struct{}, map[bool]int{false: 16, true: 1}[serial])
	run := func(kind string, data []byte) {
		d := append([]byte(nil), data...)
		wg.Add(1)
		sem <- struct{}{}
		go func() { defer wg.Done(); try(kind, d); <-sem }()
	}
	for fi, path := range args[3:] {
		data, err := os.ReadFile(path)
		if err != nil {
			return err
		}
		rng := rand.New(rand.NewSource(seed*1000 + int64(fi)))
		for i := 0; i <= len(data); i++ {
			run("truncate", data[:i])
		}
		var lines [][]byte
		start := 0
		for i, b := range data {
			if b == '\n' {
				lines = append(lines, data[start:i+1])
				start = i + 1
			}
		}
		if start < len(data) {
			lines = append(lines, data[start:])
		}
		join := func(ls [][]byte) []byte {
			var out []byte
			for _, l := range ls {
				out = append(out, l...)
			}
			return out
		}
		for i := range lines {
			del := append(append([][]byte{}, lines[:i]...), lines[i+1:]...)
			run("delete-line", join(del))
			dup := append(append(append([][]byte{}, lines[:i+1]...), lines[i]), lines[i+1:]...)
			run("dup-line", join(dup))
		}
		for i := 0; i < nrand; i++ {
			d := append([]byte(nil), data...)
			switch rng.Intn(6) {
			case 5: // a byte-order mark, line ending, NUL or run of blanks at the start, the end or anywhere
				toks := [][]byte{{0xEF, 0xBB, 0xBF}, {'\n', 0xEF, 0xBB, 0xBF}, {' ', 0xEF, 0xBB, 0xBF}, {0xFF, 0xFE}, {0xFE, 0xFF},
					{'\r', '\n'}, {'\r'}, {0}, []byte("    \t\t"), []byte("\n\n\n\n"), {0xE2, 0x80, 0xA8}, {0xC3},
					[]byte("\"\"\""), []byte("\x27\x27\x27")}
				tok := toks[rng.Intn(len(toks))]
				pos := []int{0, len(d), rng.Intn(len(d) + 1), 1}[rng.Intn(4)]
				if pos > len(d) {
					pos = len(d)
				}
				d = append(append(append([]byte(nil), d[:pos]...), tok...), d[pos:]...)
				run("insert-token", d)
			case 0: // flip bytes
				for k := 0; k < 1+rng.Intn(4) && len(d) > 0; k++ {
					d[rng.Intn(len(d))] ^= byte(1 << uint(rng.Intn(8)))
				}
				run("flip", d)
			case 1: // replace a byte by an interesting one
				if len(d) > 0 {
					special := []byte("[]{}=\".,#\n'\\-+0xeE_:T \t\x00\xff")
					d[rng.Intn(len(d))] = special[rng.Intn(len(special))]
				}
				run("subst", d)
			case 2: // splice: move a chunk
				if len(d) > 4 {
					a, b := rng.Intn(len(d)), rng.Intn(len(d))
					if a > b {
						a, b = b, a
					}
					p := rng.Intn(len(d))
					chunk := append([]byte(nil), d[a:b]...)
					d = append(append(append([]byte(nil), d[:p]...), chunk...), d[p:]...)
					if len(d) > 65536 {
						d = d[:65536]
					}
				}
				run("splice", d)
			case 3: // swap two lines
				if len(lines) > 2 {
					ls := append([][]byte{}, lines...)
					a, b := rng.Intn(len(ls)), rng.Intn(len(ls))
					ls[a], ls[b] = ls[b], ls[a]
					run("swap-lines", join(ls))
				}
			default: // random bytes
				n := rng.Intn(1 << uint(rng.Intn(17)))
				r := make([]byte, n)
				if rng.Intn(2) == 0 {
					rng.Read(r)
				} else {
					alpha := []byte("[]{}=\".,#\n' abcKEY_0123456789xmapping")
					for k := range r {
						r[k] = alpha[rng.Intn(len(alpha))]
					}
				}
				run("random", r)
			}
		}
	}
	wg.Wait()
	total := 0
	for _, n := range counts {
		total += n
	}
	enc.Encode(map[string]interface{}{"ev": "fuzzsummary", "total": total, "counts": counts})
	return nil
}

// verifh loadparse <cases.json> <scratchdir> <out.ndjson>
// The same inputs as `parse`, but read the way the running application reads them: as a file in a configuration
// directory, through config.LoadDeviceConfigs (directory walk, readDeviceConfig, error reporting).  Outcome "config" =
// the loader returned without error (the file was used or skipped), "error" = it returned an error.
func cmdLoadParse(args []string) error {
	if len(args) != 3 {
		return fmt.Errorf("usage: verifh loadparse <cases.json> <scratchdir> <out.ndjson>")
	}
	go func() {
		for range logger.Messages {
		}
	}()
	raw, err := os.ReadFile(args[0])
	if err != nil {
		return err
	}
	var cases []parseCase
	if err := json.Unmarshal(raw, &cases); err != nil {
		return err
	}
	root := args[1]
	for _, d := range []string{"factory/gamepad", "factory/keyboard", "user/gamepad", "user/keyboard"} {
		if err := os.MkdirAll(root+"/hidi-config/"+d, 0o777); err != nil {
			return err
		}
	}
	if err := os.Chdir(root); err != nil {
		return err
	}
	f, err := os.Create(args[2])
	if err != nil {
		return err
	}
	defer f.Close()
	w := bufio.NewWriterSize(f, 1<<20)
	defer w.Flush()
	enc := json.NewEncoder(w)
	timeouts := 0
	for i, c := range cases {
		if timeouts >= 3 {
			break
		}
		dir := []string{"user/keyboard", "factory/gamepad"}[i%2]
		path := "hidi-config/" + dir + "/case.toml"
		if err := os.WriteFile(path, []byte(c.Toml), 0o666); err != nil {
			return err
		}
		noteCurrent(c.ID, "via-loader", []byte(c.Toml))
		ch := make(chan parseResult, 1)
		go func() {
			defer func() {
				if p := recover(); p != nil {
					ch <- parseResult{outcome: "panic", msg: fmt.Sprint(p)}
				}
			}()
			var wg sync.WaitGroup
			if _, err := config.LoadDeviceConfigs(context.Background(), &wg); err != nil {
				ch <- parseResult{outcome: "error", msg: err.Error()}
				return
			}
			ch <- parseResult{outcome: "config"}
		}()
		var r parseResult
		select {
		case r = <-ch:
		case <-time.After(5 * time.Second):
			r = parseResult{outcome: "timeout", msg: "LoadDeviceConfigs did not return within 5s"}
			timeouts++
		}
		os.Remove(path)
		l := parseLine{Ev: "parse", ID: c.ID, Kind: "via-loader", Outcome: r.outcome, Msg: r.msg}
		if r.outcome == "panic" || r.outcome == "timeout" {
			l.Input = base64.StdEncoding.EncodeToString([]byte(c.Toml))
			w.Flush()
		}
		if err := enc.Encode(l); err != nil {
			return err
		}
	}
	return nil
}

func init() { extraCommands["loadparse"] = cmdLoadParse }
