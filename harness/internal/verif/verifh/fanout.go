//go:build verif

package main

import (
	"bufio"
	"context"
	"encoding/json"
	"fmt"
	"os"
	"runtime"
	"sync"
	"time"

	"github.com/gethiox/HIDI/internal/pkg/logger"
	"github.com/gethiox/HIDI/internal/pkg/midi"
	"github.com/gethiox/HIDI/internal/pkg/midi/driver"
	"github.com/gethiox/HIDI/internal/pkg/utils"
)

func init() {
	extraCommands["fanout"] = cmdFanout
	extraCommands["relay"] = cmdRelay
}

type fanOp struct {
	Op string `json:"op"` // spawn | inject | stop | despawn | spawn_many (all of Cs attached at the same moment)
	C  string `json:"c,omitempty"`
	M  int    `json:"m,omitempty"`
	Cs []string `json:"cs,omitempty"`
}

type fanScenario struct {
	ID   int     `json:"id"`
	Cap  int     `json:"cap"`
	Fair bool    `json:"fair"` // every consumer that stops reading is despawned later in the scenario
	Ops  []fanOp `json:"ops"`
}

type fanOpRec struct {
	Op   string `json:"op"`
	C    string `json:"c"`
	M    int    `json:"m"`
	Call int    `json:"call"`
	Ret  int    `json:"ret"` // -1: never returned
}

type fanLine struct {
	Ev        string           `json:"ev"`
	ID        int              `json:"id"`
	Cap       int              `json:"cap"`
	Fair      bool             `json:"fair"`
	Ops       []fanOpRec       `json:"ops"`
	Recv      map[string][]int `json:"recv"`
	AtFlush   []string         `json:"atflush"` // consumers attached and reading when the scenario was flushed
	Sentinels []int            `json:"sentinels"`
	Crash     string           `json:"crash"`
	Dump      string           `json:"dump,omitempty"`
}

type fanConsumer struct {
	id      int64
	ch      <-chan int
	mu      sync.Mutex
	got     []int
	reading bool
	stop    chan struct{}
	resume  chan struct{}
	closed  bool
}

func runFanScenario(sc fanScenario) (line fanLine) {
	line = fanLine{Ev: "fanout", ID: sc.ID, Cap: sc.Cap, Fair: sc.Fair, Recv: map[string][]int{}, AtFlush: []string{}}
	in := make(chan int, sc.Cap)
	f := utils.NewDynamicFanOut[int](in)
	var clk sync.Mutex
	seq := 0
	tick := func() int { clk.Lock(); seq++; s := seq; clk.Unlock(); return s }
	var recs []*fanOpRec
	cons := map[string]*fanConsumer{}
	var consMu sync.Mutex
	var crash string
	var crashMu sync.Mutex
	guard := func() {
		if p := recover(); p != nil {
			crashMu.Lock()
			crash = fmt.Sprint(p)
			crashMu.Unlock()
		}
	}
	const grace = 15 * time.Millisecond
	// runs fn in a goroutine; waits a short grace period for it to return, then goes on
	async := func(rec *fanOpRec, fn func()) {
		rec.Call = tick()
		rec.Ret = -1
		done := make(chan struct{})
		go func() {
			defer guard()
			fn()
			clk.Lock()
			seq++
			rec.Ret = seq
			clk.Unlock()
			close(done)
		}()
		select {
		case <-done:
		case <-time.After(grace):
		}
	}
	startReader := func(name string, c *fanConsumer) {
		go func() {
			for {
				select {
				case <-c.stop:
					return
				case m, ok := <-c.ch:
					if !ok {
						c.mu.Lock()
						c.closed = true
						c.mu.Unlock()
						return
					}
					c.mu.Lock()
					c.got = append(c.got, m)
					c.mu.Unlock()
				}
			}
		}()
	}
	for _, op := range sc.Ops {
		if op.Op == "spawn_many" {
			// the manager attaches every device from a goroutine of its own: several SpawnOutput calls at the same moment
			start := make(chan struct{})
			var wg sync.WaitGroup
			for _, name := range op.Cs {
				rec := &fanOpRec{Op: "spawn", C: name, Ret: -1}
				recs = append(recs, rec)
				wg.Add(1)
				go func(name string, rec *fanOpRec) {
					defer wg.Done()
					defer guard()
					<-start
					rec.Call = tick()
					id, ch, err := f.SpawnOutput()
					if err != nil {
						panic("SpawnOutput: " + err.Error())
					}
					c := &fanConsumer{id: id, ch: ch, reading: true, stop: make(chan struct{})}
					consMu.Lock()
					cons[name] = c
					consMu.Unlock()
					startReader(name, c)
					rec.Ret = tick()
				}(name, rec)
			}
			close(start)
			done := make(chan struct{})
			go func() { wg.Wait(); close(done) }()
			select {
			case <-done:
			case <-time.After(grace):
			}
			continue
		}
		rec := &fanOpRec{Op: op.Op, C: op.C, M: op.M}
		recs = append(recs, rec)
		switch op.Op {
		case "spawn":
			name := op.C
			async(rec, func() {
				id, ch, err := f.SpawnOutput()
				if err != nil {
					panic("SpawnOutput: " + err.Error())
				}
				c := &fanConsumer{id: id, ch: ch, reading: true, stop: make(chan struct{})}
				consMu.Lock()
				cons[name] = c
				consMu.Unlock()
				startReader(name, c)
			})
		case "inject":
			m := op.M
			async(rec, func() { in <- m })
		case "stop":
			rec.Call = tick()
			consMu.Lock()
			c := cons[op.C]
			consMu.Unlock()
			if c != nil && c.reading {
				c.reading = false
				close(c.stop)
			}
			rec.Ret = tick()
		case "despawn":
			consMu.Lock()
			c := cons[op.C]
			consMu.Unlock()
			if c == nil { // its spawn is still blocked
				rec.Call, rec.Ret = tick(), -2
				continue
			}
			async(rec, func() {
				if err := f.DespawnOutput(c.id); err != nil {
					panic("DespawnOutput: " + err.Error())
				}
			})
		}
	}
	// flush: two sentinels; when every attached reading consumer has the first one (or 2 s passed),
	// all earlier rounds are complete
	despawned := map[string]bool{}
	for _, r := range recs {
		if r.Op == "despawn" {
			despawned[r.C] = true
		}
	}
	last := 0
	for _, r := range recs {
		if r.Op == "inject" && r.M > last {
			last = r.M
		}
	}
	s1, s2 := last+1, last+2 // sentinels continue the numbering (ids are consecutive in injection order)
	line.Sentinels = []int{s1, s2}
	for _, s := range []int{s1, s2} {
		rec := &fanOpRec{Op: "inject", M: s}
		recs = append(recs, rec)
		ss := s
		async(rec, func() { in <- ss })
	}
	deadline := time.Now().Add(2 * time.Second)
	for time.Now().Before(deadline) {
		all := true
		consMu.Lock()
		for name, c := range cons {
			if despawned[name] || !c.reading {
				continue
			}
			c.mu.Lock()
			has := false
			for _, m := range c.got {
				if m == s2 {
					has = true
				}
			}
			c.mu.Unlock()
			if !has {
				all = false
			}
		}
		pending := false
		clk.Lock()
		for _, r := range recs {
			if r.Ret == -1 {
				pending = true
			}
		}
		clk.Unlock()
		consMu.Unlock()
		if all && !pending {
			break
		}
		time.Sleep(2 * time.Millisecond)
	}
	clk.Lock()
	blocked := false
	for _, r := range recs {
		line.Ops = append(line.Ops, *r)
		if r.Ret == -1 {
			blocked = true
		}
	}
	clk.Unlock()
	consMu.Lock()
	for name, c := range cons {
		c.mu.Lock()
		line.Recv[name] = append([]int{}, c.got...)
		c.mu.Unlock()
		if !despawned[name] && c.reading {
			line.AtFlush = append(line.AtFlush, name)
		}
	}
	consMu.Unlock()
	crashMu.Lock()
	line.Crash = crash
	crashMu.Unlock()
	if blocked {
		buf := make([]byte, 1<<16)
		n := runtime.Stack(buf, true)
		line.Dump = string(buf[:n])
		if len(line.Dump) > 6000 {
			line.Dump = line.Dump[:6000]
		}
	}
	return line
}

// verifh fanout <scenarios.json> <out.ndjson>
func cmdFanout(args []string) error {
	if len(args) != 2 {
		return fmt.Errorf("usage: verifh fanout <scenarios.json> <out.ndjson>")
	}
	raw, err := os.ReadFile(args[0])
	if err != nil {
		return err
	}
	var scs []fanScenario
	if err := json.Unmarshal(raw, &scs); err != nil {
		return err
	}
	f, err := os.Create(args[1])
	if err != nil {
		return err
	}
	defer f.Close()
	w := bufio.NewWriter(f)
	defer w.Flush()
	enc := json.NewEncoder(w)
	var mu sync.Mutex
	var wg sync.WaitGroup
	// VERIFH_SERIAL: one scenario at a time, each noted in VERIFH_CUR first (the driver's second run after the runtime
	// aborted the process - a panic in the fan-out's own goroutine cannot be recovered here)
	serial := os.Getenv("VERIFH_SERIAL") != ""
	sem := make(chan struct{}, map[bool]int{false: 32, true: 1}[serial])
	for _, sc := range scs {
		wg.Add(1)
		sem <- struct{}{}
		if p := os.Getenv("VERIFH_CUR"); serial && p != "" {
			mu.Lock()
			w.Flush()
			mu.Unlock()
			b, _ := json.Marshal(fanLine{Ev: "fanout", ID: sc.ID, Cap: sc.Cap, Fair: sc.Fair, Ops: []fanOpRec{}, Recv: map[string][]int{},
				AtFlush: []string{}, Sentinels: []int{}, Crash: "the process was taken down"})
			os.WriteFile(p, b, 0o666)
		}
		go func(sc fanScenario) {
			defer wg.Done()
			l := runFanScenario(sc)
			mu.Lock()
			enc.Encode(l)
			mu.Unlock()
			<-sem
		}(sc)
	}
	wg.Wait()
	return nil
}

// ---- relay (internal/pkg/midi/process.go) ----

type fakeOut struct{ ch chan []byte }

func (o *fakeOut) Name() string               { return "verif-out" }
func (o *fakeOut) Open() error                { return nil }
func (o *fakeOut) Close() error               { return nil }
func (o *fakeOut) SendChannel() chan<- []byte { return o.ch }

type fakeIn struct{ ch chan []byte }

func (i *fakeIn) Name() string                  { return "verif-in" }
func (i *fakeIn) Open() error                   { return nil }
func (i *fakeIn) Close() error                  { return nil }
func (i *fakeIn) ReceiveChannel() <-chan []byte { return i.ch }

type relayLine struct {
	Ev       string  `json:"ev"`
	ID       int     `json:"id"`
	Emitters int     `json:"emitters"`
	PerEm    int     `json:"per"`
	Port     [][]int `json:"port"`    // what the fake output port received
	InSent   [][]int `json:"insent"`  // what arrived on the fake input port
	InGot    [][]int `json:"ingot"`   // what came out of midiEventsIn
	Timeout  bool    `json:"timeout"` // not everything arrived within the bound
}

func toInts(b []byte) []int {
	o := make([]int, len(b))
	for i, x := range b {
		o[i] = int(x)
	}
	return o
}

// verifh relay <runs> <emitters> <per-emitter> <slow-port 0|1> <out.ndjson>
func cmdRelay(args []string) error {
	if len(args) != 5 {
		return fmt.Errorf("usage: verifh relay <runs> <emitters> <per> <slow> <out>")
	}
	go func() {
		for range logger.Messages {
		}
	}()
	var runs, nem, per, slow int
	fmt.Sscan(args[0], &runs)
	fmt.Sscan(args[1], &nem)
	fmt.Sscan(args[2], &per)
	fmt.Sscan(args[3], &slow)
	f, err := os.Create(args[4])
	if err != nil {
		return err
	}
	defer f.Close()
	w := bufio.NewWriter(f)
	defer w.Flush()
	enc := json.NewEncoder(w)
	for run := 0; run < runs; run++ {
		ctx, cancel := context.WithCancel(context.Background())
		out := &fakeOut{ch: make(chan []byte)}
		inp := &fakeIn{ch: make(chan []byte)}
		evOut := make(chan midi.Event, 8)
		evIn := make(chan midi.Event, 8)
		score := midi.Score{}
		midi.ProcessMidiEvents(ctx, driver.Port{Input: inp, Output: out}, evOut, evIn, &score)
		line := relayLine{Ev: "relay", ID: run, Emitters: nem, PerEm: per, Port: [][]int{}, InSent: [][]int{}, InGot: [][]int{}}
		total := nem * per
		var wg sync.WaitGroup
		for e := 0; e < nem; e++ {
			wg.Add(1)
			go func(e int) {
				defer wg.Done()
				for i := 0; i < per; i++ {
					// a Note On / CC / pitch bend of varying length carrying (emitter, index)
					switch i % 3 {
					case 0:
						evOut <- midi.NoteEvent(midi.NoteOn, uint8(e), uint8(i%128), uint8(i/128))
					case 1:
						evOut <- midi.ControlChangeEvent(uint8(e), uint8(i%128), uint8(i/128))
					default:
						evOut <- midi.Event{midi.PitchWheelChange | uint8(e), uint8(i % 128), uint8(i / 128)}
					}
				}
			}(e)
		}
		got := make(chan struct{})
		go func() {
			for len(line.Port) < total {
				b := <-out.ch
				line.Port = append(line.Port, toInts(b))
				if slow == 1 && len(line.Port)%7 == 0 {
					time.Sleep(50 * time.Microsecond)
				}
			}
			close(got)
		}()
		// input direction
		nin := per * 2
		ingot := make(chan struct{})
		go func() {
			for len(line.InGot) < nin {
				ev := <-evIn
				line.InGot = append(line.InGot, toInts(ev))
				// a device that reads late now and then: the queues of the input direction back up
				if len(line.InGot)%11 == 0 {
					time.Sleep(300 * time.Microsecond)
				}
			}
			close(ingot)
		}()
		for i := 0; i < nin; i++ {
			msg := []byte{0x90 | byte(i%16), byte(i % 128), byte(i / 128)}
			switch i % 6 {
			case 3: // system real-time, one byte: clock / start / continue / stop / active sensing
				msg = []byte{[]byte{0xF8, 0xFA, 0xFB, 0xFC, 0xFE}[(i/6)%5]}
			case 5: // two bytes: program change, channel pressure
				msg = []byte{[]byte{0xC0, 0xD0}[(i/6)%2] | byte(i%16), byte(i % 128)}
			}
			line.InSent = append(line.InSent, toInts(msg))
			inp.ch <- msg
		}
		for _, c := range []chan struct{}{got, ingot} {
			select {
			case <-c:
			case <-time.After(5 * time.Second):
				line.Timeout = true
			}
		}
		wg.Wait()
		cancel()
		enc.Encode(line)
	}
	return nil
}
