//go:build verif

// Command verifh is the binding harness of the /verif framework.  It is copied into a scratch
// copy of the repository (never into /repo itself) and drives the real packages through their
// exported API, one input at a time, writing ndjson traces that TLC validates against the
// specifications in /verif/spec.
package main

import (
	"fmt"
	"os"
)

func main() {
	if len(os.Args) < 2 {
		fmt.Fprintln(os.Stderr, "usage: verifh <device|...> args")
		os.Exit(2)
	}
	var err error
	switch os.Args[1] {
	case "device":
		err = cmdDevice(os.Args[2:])
	default:
		if f, ok := extraCommands[os.Args[1]]; ok {
			err = f(os.Args[2:])
		} else {
			err = fmt.Errorf("unknown command %q", os.Args[1])
		}
	}
	if err != nil {
		fmt.Fprintln(os.Stderr, "verifh:", err)
		os.Exit(2)
	}
}

var extraCommands = map[string]func([]string) error{}
