//go:build verif

package main

import (
	"bufio"
	"encoding/json"
	"fmt"
	"os"
	"runtime/debug"
	"strings"
	"syscall"
	"time"

	"github.com/gethiox/HIDI/internal/pkg/input"
	"github.com/gethiox/HIDI/internal/pkg/logger"
	"github.com/gethiox/HIDI/internal/pkg/midi"
	"github.com/gethiox/HIDI/internal/pkg/midi/device"
	"github.com/gethiox/HIDI/internal/pkg/midi/device/config"
	"github.com/holoplot/go-evdev"
)

// ---- abstract configuration (the spec's cfg record) ----

type absKey struct {
	N int `json:"n"`
	O int `json:"o"`
}

type absAxis struct {
	Type    string `json:"type"`
	CC      int    `json:"cc"`
	CCNeg   int    `json:"ccNeg"`
	Note    int    `json:"note"`
	NoteNeg int    `json:"noteNeg"`
	Off     int    `json:"off"`
	OffNeg  int    `json:"offNeg"`
	Act     string `json:"act"`
	ActNeg  string `json:"actNeg"`
	Bidi    bool   `json:"bidi"`
	Flip    bool   `json:"flip"`
	Centre  bool   `json:"centre"`
	Dzn     int    `json:"dzn"`
	Dzd     int    `json:"dzd"`
	DzSrc   string `json:"dzsrc"` // specific | handler | global (how the dead-zone is stored)
}

type absMap struct {
	Name string             `json:"name"`
	Keys map[string]absKey  `json:"keys"`
	Axes map[string]absAxis `json:"axes"`
}

type absInfo struct {
	Min int32 `json:"min"`
	Max int32 `json:"max"`
}

type absCfg struct {
	Mode    string             `json:"mode"`
	Exit    []string           `json:"exit"`
	Vel     int                `json:"vel"`
	DOct    int                `json:"dOct"`
	DSemi   int                `json:"dSemi"`
	DChan   int                `json:"dChan"`
	DMap    int                `json:"dMap"`
	Actions map[string]string  `json:"actions"`
	Maps    []absMap           `json:"maps"`
	Axinfo  map[string]absInfo `json:"axinfo"`
}

type devInput struct {
	Ev  string `json:"ev"`
	K   string `json:"k,omitempty"`
	A   string `json:"a,omitempty"`
	Raw int32  `json:"raw,omitempty"`
	// ignored events: what kind ("syn", "repeat", "rel", "msc")
	Kind string `json:"kind,omitempty"`
}

type devBatch struct {
	Cfg     json.RawMessage `json:"cfg"`
	CfgMode string          `json:"cfgmode"` // literal | toml
	Toml    string          `json:"toml"`
	Sub     string          `json:"sub"` // sub-handler name the events come from
	// Optional: when ParseData rejects the rendered configuration the batch is skipped (logged as
	// "rejected") instead of being an error: the quantifier is "configurations the parser accepts"
	Optional bool         `json:"optional"`
	Walks    [][]devInput `json:"walks"`
	// OutCap > 0: the device writes into an output channel of that capacity (the application's has 8) whose reader takes
	// SlowUs microseconds per message: back-pressure on the MIDI output, as a slow port gives
	OutCap int `json:"outcap"`
	SlowUs int `json:"slow_us"`
	// Prefill: before every event (and before the disconnect) the harness fills that channel up with marker messages of its
	// own - the traffic of the other devices, which write into the same channel in the application - so that the FIRST
	// message of the step meets a full channel too.  Markers are discarded on the reading side.
	Prefill bool `json:"prefill"`
	// SharedOut > 0 (isolation runs only): all devices of the batch write into ONE output channel of that capacity, read
	// by one slow reader - the application's arrangement (8 slots, one relay goroutine); every device plays on a MIDI
	// channel of its own, by which the common stream is told apart again
	SharedOut int `json:"shared_out"`
	// Logs: the device is created with logging on (noLogs = false), as the application creates it
	Logs bool `json:"logs"`
	// SigCap > 0 (with OutCap > 0): the termination-signal channel has that capacity (the application's has 1 and is shared
	// by all devices and os/signal) and is filled up with a marker signal before every event - a signal somebody else raised
	// and nobody has read yet; the harness reads it only while it waits to hand over the next event
	SigCap int `json:"sigcap"`
}

// harnessLogs / harnessSigCap: set per batch by cmdDevice (which runs batches one after the other)
var harnessLogs bool
var harnessSigCap int

const markerSig = syscall.SIGUSR2

// marker is the harness's own filler message (Active Sensing: no device ever sends it)
var marker = midi.Event{0xFE}

func isMarker(m midi.Event) bool { return len(m) == 1 && m[0] == 0xFE }

func (r *devRun) fill() {
	if r.sigfill {
		for more := true; more; {
			select {
			case r.sigs <- markerSig:
			default:
				more = false
			}
		}
	}
	if r.small == nil || !r.prefill {
		return
	}
	for {
		select {
		case r.small <- marker:
		default:
			return
		}
	}
}

func keyCode(name string) (evdev.EvCode, error) {
	if strings.HasPrefix(name, "x") {
		var v uint
		_, err := fmt.Sscanf(name[1:], "%x", &v)
		return evdev.EvCode(v), err
	}
	c, ok := evdev.KEYFromString[name]
	if !ok {
		return 0, fmt.Errorf("unknown key name %q", name)
	}
	return c, nil
}

// splitAxis: an axis name of the abstract configuration may carry the sub-handler it belongs to, "Touchpad:ABS_X" -
// the same evdev code delivered by another handler of the device.  The model treats it as an axis of its own.
func splitAxis(name, dflt string) (sub, abs string) {
	if i := strings.Index(name, ":"); i >= 0 {
		return name[:i], name[i+1:]
	}
	return dflt, name
}

func absCode(name string) (evdev.EvCode, error) {
	_, name = splitAxis(name, "")
	if strings.HasPrefix(name, "x") { // a code without a symbolic name, written as in a configuration file
		var v uint
		_, err := fmt.Sscanf(name[1:], "%x", &v)
		return evdev.EvCode(v), err
	}
	c, ok := evdev.ABSFromString[name]
	if !ok {
		return 0, fmt.Errorf("unknown abs name %q", name)
	}
	return c, nil
}

// literalConfig builds config.Config directly from the abstract record (used where a property
// is about the engine alone and the parser must not mask or add anything).
func literalConfig(c *absCfg, sub string) (config.Config, error) {
	var out config.Config
	out.CollisionMode = config.CollisionMode(c.Mode)
	for _, k := range c.Exit {
		code, err := keyCode(k)
		if err != nil {
			return out, err
		}
		out.ExitSequence = append(out.ExitSequence, code)
	}
	out.ActionMapping = map[evdev.EvCode]config.Action{}
	for k, a := range c.Actions {
		code, err := keyCode(k)
		if err != nil {
			return out, err
		}
		out.ActionMapping[code] = config.Action(a)
	}
	out.Defaults = config.Defaults{Octave: c.DOct, Semitone: c.DSemi, Channel: c.DChan + 1, Mapping: c.DMap - 1, Velocity: c.Vel}
	for _, m := range c.Maps {
		km := config.KeyMapping{
			Name:            m.Name,
			Midi:            map[string]map[evdev.EvCode]config.Key{},
			Analog:          map[string]map[evdev.EvCode]config.Analog{},
			Deadzones:       map[string]map[evdev.EvCode]float64{},
			DefaultDeadzone: map[string]float64{},
		}
		if len(m.Keys) > 0 {
			km.Midi[sub] = map[evdev.EvCode]config.Key{}
		}
		for k, kd := range m.Keys {
			code, err := keyCode(k)
			if err != nil {
				return out, err
			}
			km.Midi[sub][code] = config.Key{Note: byte(kd.N), ChannelOffset: byte(kd.O)}
		}
		for a, ad := range m.Axes {
			code, err := absCode(a)
			if err != nil {
				return out, err
			}
			sub, _ := splitAxis(a, sub)
			if km.Analog[sub] == nil {
				km.Analog[sub] = map[evdev.EvCode]config.Analog{}
				km.Deadzones[sub] = map[evdev.EvCode]float64{}
			}
			km.Analog[sub][code] = config.Analog{
				MappingType: config.MappingType(ad.Type),
				CC:          byte(ad.CC), CCNeg: byte(ad.CCNeg),
				Note: byte(ad.Note), NoteNeg: byte(ad.NoteNeg),
				ChannelOffset: byte(ad.Off), ChannelOffsetNeg: byte(ad.OffNeg),
				Action: config.Action(ad.Act), ActionNeg: config.Action(ad.ActNeg),
				FlipAxis: ad.Flip, Bidirectional: ad.Bidi, DeadzoneAtCenter: ad.Centre,
			}
			dz := float64(ad.Dzn) / float64(ad.Dzd)
			switch ad.DzSrc {
			case "handler":
				km.DefaultDeadzone[sub] = dz
			case "global":
				km.DefaultDeadzone[""] = dz
			default:
				km.Deadzones[sub][code] = dz
			}
		}
		out.KeyMappings = append(out.KeyMappings, km)
	}
	return out, nil
}

func parseGuarded(data []byte) (c config.Config, err error) {
	defer func() {
		if p := recover(); p != nil {
			err = fmt.Errorf("ParseData panicked: %v", p)
		}
	}()
	return config.ParseData(data)
}

type stepOut struct {
	Ev   string     `json:"ev"`
	K    string     `json:"k,omitempty"`
	A    string     `json:"a,omitempty"`
	Raw  *int32     `json:"raw,omitempty"`
	Kind string     `json:"kind,omitempty"`
	C    int        `json:"c,omitempty"`
	O    [][]int    `json:"o"`
	Sg   int        `json:"sg"`
	St   *stateJSON `json:"st,omitempty"`
	Msg  string     `json:"msg,omitempty"`
}

type stateJSON struct {
	Oct   int    `json:"oct"`
	Semi  int    `json:"semi"`
	Chan  int    `json:"chan"`
	Notes int    `json:"notes"`
	Map   string `json:"map"`
}

const stepTimeout = 5 * time.Second

type devRun struct {
	dev     *device.Device
	in      chan *input.InputEvent
	out     chan midi.Event
	sigs    chan os.Signal
	done    chan string // "" = returned normally, otherwise the panic text
	sub     string
	codes   map[string]evdev.EvCode
	small   chan midi.Event // tight output: what the device writes into (nil = it writes into out)
	slow    time.Duration
	pending []midi.Event
	prefill bool
	sigfill bool
	sgPending int
	// every message as it was received (the slice itself) and a copy of its bytes at that moment: a device that re-uses
	// the buffer of a message it has already sent changes what a receiver that lags behind will read
	sentRef  []midi.Event
	sentCopy [][]byte
}

// aliasing reports a message whose bytes changed after it had been received ("" if none)
func (r *devRun) aliasing() string {
	for i, m := range r.sentRef {
		c := r.sentCopy[i]
		if len(m) != len(c) {
			return fmt.Sprintf("message %d was %x when it was sent and is %x now", i+1, c, []byte(m))
		}
		for j := range c {
			if m[j] != c[j] {
				return fmt.Sprintf("message %d was %x when it was sent and is %x now (the device re-used its buffer)", i+1, c, []byte(m))
			}
		}
	}
	return ""
}

// tightOutput makes the device write into a small channel that nobody reads while an event is being handled: the
// harness takes one message every `slow` only while it waits for the device to accept the next event (see send), so a
// second message of a step always meets a full channel.  No background reader, no timing assumption: everything the
// device sent for a step has been received when the step's sentinel is accepted, except what still sits in the channel.
func (r *devRun) tightOutput(capacity int, slow time.Duration) chan midi.Event {
	r.small = make(chan midi.Event, capacity)
	r.slow = slow
	return r.small
}

func newDevRun(conf config.Config, axinfo map[string]absInfo, sub string) (*devRun, error) {
	return newDevRunOut(conf, axinfo, sub, 0, 0)
}

func newDevRunOut(conf config.Config, axinfo map[string]absInfo, sub string, outcap, slowUs int) (*devRun, error) {
	return newDevRunInto(conf, axinfo, sub, outcap, slowUs, nil)
}

// newDevRunInto: shared != nil makes the device write into that channel (somebody else reads it)
func newDevRunInto(conf config.Config, axinfo map[string]absInfo, sub string, outcap, slowUs int, shared chan midi.Event) (*devRun, error) {
	r := &devRun{
		in:   make(chan *input.InputEvent),
		out:  make(chan midi.Event, 8192),
		sigs: make(chan os.Signal, 64),
		done: make(chan string, 1),
		sub:  sub,
	}
	abs := map[evdev.EvCode]evdev.AbsInfo{}
	for a, inf := range axinfo {
		code, err := absCode(a)
		if err != nil {
			return nil, err
		}
		abs[code] = evdev.AbsInfo{Minimum: inf.Min, Maximum: inf.Max}
	}
	idev := input.Device{
		Name:       "verif",
		DeviceType: input.KeyboardDevice,
		Handlers:   []input.Handler{{Name: sub, DeviceInfo: input.DeviceInfo{Name: "verif " + sub}}},
		AbsInfos:   map[string]map[evdev.EvCode]evdev.AbsInfo{"": abs},
	}
	devOut := r.out
	if outcap > 0 {
		devOut = r.tightOutput(outcap, time.Duration(slowUs)*time.Microsecond)
	}
	if shared != nil {
		devOut = shared
	}
	if harnessSigCap > 0 && r.small != nil {
		r.sigs = make(chan os.Signal, harnessSigCap)
		r.sigfill = true
	}
	d := device.NewDevice(idev, config.DeviceConfig{ConfigFile: "verif", ConfigType: "user", Config: conf},
		devOut, nil, !harnessLogs, 0, r.sigs)
	r.dev = &d
	go func() {
		defer func() {
			if p := recover(); p != nil {
				r.done <- fmt.Sprintf("panic: %v\n%s", p, debug.Stack())
			}
		}()
		r.dev.ProcessEvents(r.in)
		r.done <- ""
	}()
	return r, nil
}

// send delivers one event; it returns "" when the engine took it, or a failure text.
func (r *devRun) send(ev *input.InputEvent) string {
	if r.small != nil {
		deadline := time.Now().Add(stepTimeout)
		for {
			select {
			case r.in <- ev:
				return ""
			case msg := <-r.done:
				r.done <- msg
				if msg == "" {
					return "ended: ProcessEvents returned while its input was still open"
				}
				return msg
			case <-time.After(r.slow):
				select {
				case m := <-r.small:
					if !isMarker(m) {
						r.pending = append(r.pending, m)
					}
				default:
				}
				if r.sigfill {
					select {
					case s := <-r.sigs:
						if s != markerSig {
							r.sgPending++
						}
					default:
					}
				}
				if time.Now().After(deadline) {
					return "hang: the engine did not take the next event within 5s"
				}
			}
		}
	}
	select {
	case r.in <- ev:
		return ""
	case msg := <-r.done:
		r.done <- msg
		if msg == "" {
			return "ended: ProcessEvents returned while its input was still open"
		}
		return msg
	case <-time.After(stepTimeout):
		return "hang: the engine did not take the next event within 5s"
	}
}

func (r *devRun) event(t evdev.EvType, code evdev.EvCode, val int32) *input.InputEvent {
	return &input.InputEvent{
		Source: input.Handler{Name: r.sub, DeviceInfo: input.DeviceInfo{Name: "verif " + r.sub}},
		Event:  evdev.InputEvent{Time: syscall.Timeval{}, Type: t, Code: code, Value: val},
	}
}

func (r *devRun) drain() ([][]int, int) {
	o := [][]int{}
	add := func(m midi.Event) {
		if isMarker(m) {
			return
		}
		b := make([]int, len(m))
		for i, x := range m {
			b[i] = int(x)
		}
		o = append(o, b)
		if len(r.sentRef) < 4096 {
			r.sentRef = append(r.sentRef, m)
			r.sentCopy = append(r.sentCopy, append([]byte(nil), m...))
		}
	}
	// order of emission: what send() took while it waited, what the mover goroutine of a disconnect step carried over,
	// what still sits in the tight channel
	for _, m := range r.pending {
		add(m)
	}
	r.pending = nil
	for more := true; more; {
		select {
		case m := <-r.out:
			add(m)
		default:
			more = false
		}
	}
	if r.small != nil {
		for more := true; more; {
			select {
			case m := <-r.small:
				add(m)
			default:
				more = false
			}
		}
	}
	sg := r.sgPending
	r.sgPending = 0
	for {
		select {
		case s := <-r.sigs:
			if s != markerSig {
				sg++
			}
			continue
		default:
		}
		break
	}
	return o, sg
}

func (r *devRun) state() *stateJSON {
	s := r.dev.State()
	return &stateJSON{Oct: int(s.Octave), Semi: int(s.Semitone), Chan: int(s.Channel), Notes: s.Notes, Map: s.Mapping}
}

// step performs one input and the sentinel that proves it has been completely processed.
func (r *devRun) step(in devInput) (stepOut, bool) {
	res := stepOut{Ev: in.Ev, K: in.K, A: in.A, Kind: in.Kind}
	var ev *input.InputEvent
	switch in.Ev {
	case "press", "release":
		code, err := keyCode(in.K)
		if err != nil {
			res.Ev, res.Msg = "harness-error", err.Error()
			return res, false
		}
		v := int32(device.EV_KEY_PRESS)
		if in.Ev == "release" {
			v = device.EV_KEY_RELEASE
		}
		ev = r.event(evdev.EV_KEY, code, v)
	case "axis":
		code, err := absCode(in.A)
		if err != nil {
			res.Ev, res.Msg = "harness-error", err.Error()
			return res, false
		}
		raw := in.Raw
		res.Raw = &raw
		ev = r.event(evdev.EV_ABS, code, in.Raw)
		ev.Source.Name, _ = splitAxis(in.A, r.sub)
	case "ignored":
		switch in.Kind {
		case "repeat":
			code, _ := keyCode(in.K)
			ev = r.event(evdev.EV_KEY, code, device.EV_KEY_REPEAT)
		case "rel":
			ev = r.event(evdev.EV_REL, 0, 1)
		case "msc":
			ev = r.event(evdev.EV_MSC, 4, 458756)
		default:
			ev = r.event(evdev.EV_SYN, 0, 0)
		}
	case "disconnect":
		stop := make(chan struct{})
		var exited <-chan struct{}
		if r.small != nil && r.prefill {
			// the clean-up meets a full channel; nobody reads it for a moment (a device that must deliver its Note Offs waits)
			r.fill()
			close(r.in)
			time.Sleep(3 * time.Millisecond)
			exited = r.unblock(stop)
		} else {
			exited = r.unblock(stop)
			close(r.in)
		}
		select {
		case msg := <-r.done:
			r.done <- msg
			if msg != "" {
				res.Ev, res.Msg = "crash", msg
			}
		case <-time.After(stepTimeout):
			res.Ev, res.Msg = "hang", "ProcessEvents did not return within 5s of its input being closed"
		}
		// the mover goroutine has handed over whatever it held before the output is read
		close(stop)
		<-exited
		res.O, res.Sg = r.drain()
		return res, false
	default:
		res.Ev, res.Msg = "harness-error", "unknown input "+in.Ev
		return res, false
	}
	r.fill()
	for i, e := range []*input.InputEvent{ev, r.event(evdev.EV_SYN, 0, 0)} {
		if msg := r.send(e); msg != "" {
			_ = i
			if strings.HasPrefix(msg, "hang") {
				res.Ev = "hang"
			} else {
				res.Ev = "crash"
			}
			res.Msg = msg
			res.O, res.Sg = r.drain()
			return res, false
		}
	}
	res.O, res.Sg = r.drain()
	res.St = r.state()
	return res, true
}

// unblock lets a device that writes into the tight output channel run to its end (nobody reads that channel otherwise)
func (r *devRun) unblock(stop <-chan struct{}) <-chan struct{} {
	exited := make(chan struct{})
	if r.small == nil {
		close(exited)
		return exited
	}
	go func() {
		defer close(exited)
		for {
			select {
			case m := <-r.small:
				r.out <- m
			case <-stop:
				return
			}
		}
	}()
	return exited
}

func (r *devRun) finish() {
	defer func() { recover() }()
	stop := make(chan struct{})
	defer close(stop)
	r.unblock(stop)
	close(r.in)
	select {
	case <-r.done:
	case <-time.After(stepTimeout):
	}
}

func cmdDevice(args []string) error {
	if len(args) != 2 {
		return fmt.Errorf("usage: verifh device <batches.json> <trace.ndjson>")
	}
	go func() { // the engine logs unconditionally into a 128-slot channel
		for range logger.Messages {
		}
	}()
	raw, err := os.ReadFile(args[0])
	if err != nil {
		return err
	}
	var batches []devBatch
	if err := json.Unmarshal(raw, &batches); err != nil {
		return fmt.Errorf("batches: %w", err)
	}
	f, err := os.Create(args[1])
	if err != nil {
		return err
	}
	defer f.Close()
	w := bufio.NewWriterSize(f, 1<<20)
	defer w.Flush()
	enc := json.NewEncoder(w)

	cfgs := make([]json.RawMessage, len(batches))
	for i, b := range batches {
		cfgs[i] = b.Cfg
	}
	if err := enc.Encode(map[string]interface{}{"ev": "cfgs", "cfgs": cfgs}); err != nil {
		return err
	}
	for bi, b := range batches {
		var ac absCfg
		if err := json.Unmarshal(b.Cfg, &ac); err != nil {
			return fmt.Errorf("batch %d cfg: %w", bi, err)
		}
		var conf config.Config
		if b.CfgMode == "toml" {
			conf, err = parseGuarded([]byte(b.Toml))
			if err != nil && b.Optional {
				if err := enc.Encode(stepOut{Ev: "rejected", C: bi + 1, O: [][]int{}, Msg: err.Error()}); err != nil {
					return err
				}
				continue
			}
			if err != nil {
				return fmt.Errorf("batch %d: ParseData rejected the rendered configuration: %w", bi, err)
			}
		} else {
			conf, err = literalConfig(&ac, b.Sub)
			if err != nil {
				return fmt.Errorf("batch %d: %w", bi, err)
			}
		}
		for _, walk := range b.Walks {
			harnessLogs, harnessSigCap = b.Logs, b.SigCap
			r, err := newDevRunOut(conf, ac.Axinfo, b.Sub, b.OutCap, b.SlowUs)
			harnessLogs, harnessSigCap = false, 0
			if err != nil {
				return err
			}
			r.prefill = b.Prefill
			start := stepOut{Ev: "start", C: bi + 1, O: [][]int{}, St: r.state()}
			if err := enc.Encode(start); err != nil {
				return err
			}
			alive := true
			for _, in := range walk {
				var res stepOut
				res, alive = r.step(in)
				if err := enc.Encode(res); err != nil {
					return err
				}
				if res.Ev == "harness-error" {
					return fmt.Errorf("harness error: %s", res.Msg)
				}
				if !alive {
					break
				}
			}
			if alive {
				r.finish()
			}
			if msg := r.aliasing(); msg != "" {
				if err := enc.Encode(stepOut{Ev: "crash", O: [][]int{}, Msg: msg}); err != nil {
					return err
				}
			}
		}
	}
	return nil
}
