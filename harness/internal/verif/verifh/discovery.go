//go:build verif

package main

import (
	"bufio"
	"encoding/json"
	"fmt"
	"math/rand"
	"os"
	"sort"
	"strconv"

	"github.com/gethiox/HIDI/internal/pkg/input"
	"github.com/gethiox/HIDI/internal/pkg/logger"
	"github.com/holoplot/go-evdev"
)

func init() { extraCommands["discovery"] = cmdDiscovery }

type discTable struct {
	Caps map[string][]string `json:"caps"`
	Locs []string            `json:"locs"`
}

type discHandler struct {
	Phys string `json:"phys"`
	Cls  string `json:"cls"`
	Ht   string `json:"ht"`
}

type discDev struct {
	Hs   []int  `json:"hs"`
	Type string `json:"type"`
	Phys string `json:"phys"`
}

type discLine struct {
	Ev   string        `json:"ev"`
	Hs   []discHandler `json:"hs"`
	Devs []discDev     `json:"devs"`
	Msg  string        `json:"msg,omitempty"`
}

var evTypeByName = map[string]evdev.EvType{
	"EV_SYN": evdev.EV_SYN, "EV_KEY": evdev.EV_KEY, "EV_REL": evdev.EV_REL, "EV_ABS": evdev.EV_ABS, "EV_MSC": evdev.EV_MSC,
	"EV_SW": evdev.EV_SW, "EV_LED": evdev.EV_LED, "EV_SND": evdev.EV_SND, "EV_REP": evdev.EV_REP, "EV_FF": evdev.EV_FF,
}

func normalizeCase(tab *discTable, classes []string, seq [][2]int, rng *rand.Rand) (line discLine) {
	line = discLine{Ev: "norm", Hs: []discHandler{}, Devs: []discDev{}}
	defer func() {
		if p := recover(); p != nil {
			line.Ev, line.Msg = "crash", fmt.Sprint(p)
		}
	}()
	var infos []input.DeviceInfo
	for i, h := range seq {
		cls, loc := classes[h[0]], tab.Locs[h[1]]
		var caps []evdev.EvType
		for _, n := range tab.Caps[cls] {
			caps = append(caps, evTypeByName[n])
		}
		if rng != nil { // capability order as reported by the kernel is not specified
			rng.Shuffle(len(caps), func(a, b int) { caps[a], caps[b] = caps[b], caps[a] })
		}
		// the identifier is a function of the location (one physical device = one identifier)
		id := input.InputID{Bus: 3, Vendor: uint16(0x1000 + h[1]), Product: uint16(0x20 + h[1]), Version: 1}
		di := input.DeviceInfo{ID: id, Name: fmt.Sprintf("h%d", i+1), Phys: loc, CapableTypes: caps}
		infos = append(infos, di)
		line.Hs = append(line.Hs, discHandler{Phys: loc, Cls: cls, Ht: di.HandlerType().String()})
	}
	devs := input.Normalize(infos)
	for _, d := range devs {
		dd := discDev{Type: d.DeviceType.String(), Phys: d.Phys, Hs: []int{}}
		for _, h := range d.Handlers {
			n, err := strconv.Atoi(h.DeviceInfo.Name[1:])
			if err != nil {
				n = -1
			}
			dd.Hs = append(dd.Hs, n)
		}
		sort.Ints(dd.Hs)
		line.Devs = append(line.Devs, dd)
	}
	sort.Slice(line.Devs, func(a, b int) bool { return fmt.Sprint(line.Devs[a].Hs) < fmt.Sprint(line.Devs[b].Hs) })
	return line
}

// verifh discovery <table.json> <maxlen-exhaustive> <random-cases> <random-maxlen> <seed> <out.ndjson>
func cmdDiscovery(args []string) error {
	if len(args) != 6 {
		return fmt.Errorf("usage: verifh discovery <table.json> <maxlen> <random> <randmaxlen> <seed> <out>")
	}
	go func() {
		for range logger.Messages {
		}
	}()
	var tab discTable
	raw, err := os.ReadFile(args[0])
	if err != nil {
		return err
	}
	if err := json.Unmarshal(raw, &tab); err != nil {
		return err
	}
	maxlen, _ := strconv.Atoi(args[1])
	nrand, _ := strconv.Atoi(args[2])
	randMax, _ := strconv.Atoi(args[3])
	seed, _ := strconv.ParseInt(args[4], 10, 64)
	var classes []string
	for c := range tab.Caps {
		classes = append(classes, c)
	}
	sort.Strings(classes)
	if p := os.Getenv("VERIFH_PERM"); p != "" { // another order of first contact with each capability set (fresh process)
		ps, _ := strconv.ParseInt(p, 10, 64)
		rand.New(rand.NewSource(ps)).Shuffle(len(classes), func(a, b int) { classes[a], classes[b] = classes[b], classes[a] })
	}
	f, err := os.Create(args[5])
	if err != nil {
		return err
	}
	defer f.Close()
	w := bufio.NewWriterSize(f, 1<<20)
	defer w.Flush()
	enc := json.NewEncoder(w)
	nk := len(classes) * len(tab.Locs)
	// every sequence (hence every multiset in every discovery order) of up to maxlen handlers
	for n := 0; n <= maxlen; n++ {
		idx := make([]int, n)
		for {
			seq := make([][2]int, n)
			for i, v := range idx {
				seq[i] = [2]int{v / len(tab.Locs), v % len(tab.Locs)}
			}
			enc.Encode(normalizeCase(&tab, classes, seq, nil))
			i := n - 1
			for i >= 0 {
				idx[i]++
				if idx[i] < nk {
					break
				}
				idx[i] = 0
				i--
			}
			if i < 0 {
				break
			}
		}
	}
	rng := rand.New(rand.NewSource(seed))
	// the seeded part also uses many locations at once (up to twelve devices discovered in one batch, revisited in any
	// interleaving): more than any fixed small capacity inside the grouping code
	wide := tab
	wide.Locs = append([]string{}, tab.Locs...)
	for i := 3; i <= 9; i++ {
		wide.Locs = append(wide.Locs, fmt.Sprintf("usb-0000:00:14.0-%d/input%d", i/2, i%2))
	}
	// prefixes and near-duplicates of other locations
	wide.Locs = append(wide.Locs, "usb-0000:00:14.0-1", "usb-0000:00:14.0-1/input", "usb-0000:00:14.0-1/input00", "/input0", "USB-0000:00:14.0-1/input0")
	for c := 0; c < nrand; c++ {
		n := maxlen + 1 + rng.Intn(randMax-maxlen)
		t := &tab
		if c%2 == 1 {
			t = &wide
			n += rng.Intn(8)
		}
		seq := make([][2]int, n)
		for i := range seq {
			seq[i] = [2]int{rng.Intn(len(classes)), rng.Intn(len(t.Locs))}
		}
		// the same multiset in three orders
		for k := 0; k < 3; k++ {
			enc.Encode(normalizeCase(t, classes, seq, rng))
			rng.Shuffle(len(seq), func(a, b int) { seq[a], seq[b] = seq[b], seq[a] })
		}
	}
	return nil
}
