//go:build verif

package main

import (
	"bufio"
	"encoding/json"
	"fmt"
	"os"
	"runtime"
	"runtime/debug"
	"strings"
	"sync/atomic"
	"time"

	"github.com/gethiox/HIDI/internal/pkg/input"
	"github.com/gethiox/HIDI/internal/pkg/logger"
	"github.com/gethiox/HIDI/internal/pkg/midi"
	"github.com/gethiox/HIDI/internal/pkg/midi/device"
	"github.com/gethiox/HIDI/internal/pkg/midi/device/config"
	"github.com/holoplot/go-evdev"
	"github.com/realbucksavage/openrgb-go"
)

func init() { extraCommands["led"] = cmdLed }

type ledBatch struct {
	Cfg    json.RawMessage   `json:"cfg"`
	Colors map[string][3]int `json:"colors"`
	Layout []string          `json:"layout"` // per LED: a key name, or "other:<LED name>"
	Event  string            `json:"event"`  // event node name of the device's handler
	Hidraw string            `json:"hidraw"` // hidraw node the fake controller reports
	Walks  [][]ledStep       `json:"walks"`
	// NoWait: do not wait for LED frames (life-cycle scenarios: disconnect while the LED goroutine is
	// still connecting, bursts of events); frames are then not attributed to steps
	NoWait bool `json:"nowait"`
	// AsyncMidi: MIDI-input messages are handed over without the sentinel that waits until they are processed,
	// so that nothing the harness does orders the MIDI-input goroutine before the next key event (race detection)
	AsyncMidi bool `json:"async_midi"`
	// Flood: the MIDI-input channel is buffered (deeply: the senders must stay ahead of the device) and twelve senders keep
	// it non-empty from before the disconnect until ProcessEvents has returned: dense MIDI input arriving at the end of life
	Flood bool `json:"flood"`
	// Server: behaviour of the fake OpenRGB server ("" | "nocontroller" | "other"), see fakeORGB.mode
	Server string `json:"server"`
	// SlowOutUs > 0: the device writes its MIDI output into a one-slot channel that the harness reads one message per
	// SlowOutUs microseconds (a slow port): a burst such as panic's 129 messages outlasts an LED refresh cycle
	SlowOutUs int `json:"slow_out_us"`
	// Ctrl: the name the fake OpenRGB server gives its controller ("" = "verif keyboard"); the device treats some
	// controllers specially (a light bar that is kept dark)
	Ctrl string `json:"ctrl"`
}

type ledStep struct {
	devInput
	Msg []int `json:"msg,omitempty"`
}

type ledOut struct {
	stepOut
	MsgIn     []int    `json:"msgin,omitempty"`
	Frame     [][3]int `json:"frame"`
	NFrames   int      `json:"nframes"`
	ReturnMs  int64    `json:"return_ms"`
	ReqAfter  int64    `json:"req_after"` // requests the OpenRGB server received from the end of the event stream on
	Leftover  []string `json:"leftover,omitempty"`
	LedActive bool     `json:"led_active"`
	NoWait    bool     `json:"nowait"`
}

func col(c [3]int) openrgb.Color {
	return openrgb.Color{Red: byte(c[0]), Green: byte(c[1]), Blue: byte(c[2])}
}

func ledNames(layout []string) ([]string, error) {
	var out []string
	for _, l := range layout {
		if strings.HasPrefix(l, "other:") {
			out = append(out, l[6:])
			continue
		}
		code, err := keyCode(l)
		if err != nil {
			return nil, err
		}
		name, ok := device.KeyToLedName[code]
		if !ok {
			return nil, fmt.Errorf("key %s has no OpenRGB LED name", l)
		}
		out = append(out, name)
	}
	return out, nil
}

func waitFrames(srv *fakeORGB, from, more int, limit time.Duration) bool {
	deadline := time.Now().Add(limit)
	for time.Now().Before(deadline) {
		if srv.frameCount() >= from+more {
			return true
		}
		time.Sleep(time.Millisecond)
	}
	return false
}

// goroutines that still execute code of package device
func deviceGoroutines() []string {
	buf := make([]byte, 1<<20)
	n := runtime.Stack(buf, true)
	var out []string
	for _, g := range strings.Split(string(buf[:n]), "\n\n") {
		if strings.Contains(g, "HIDI/internal/pkg/midi/device.") {
			lines := strings.Split(g, "\n")
			if len(lines) > 6 {
				lines = lines[:6]
			}
			out = append(out, strings.Join(lines, " | "))
		}
	}
	return out
}

// verifh led <batches.json> <trace.ndjson>     (run inside a mount namespace that provides /sys/class/hidraw)
func cmdLed(args []string) error {
	if len(args) != 2 {
		return fmt.Errorf("usage: verifh led <batches.json> <trace.ndjson>")
	}
	go func() {
		for range logger.Messages {
		}
	}()
	raw, err := os.ReadFile(args[0])
	if err != nil {
		return err
	}
	var batches []ledBatch
	if err := json.Unmarshal(raw, &batches); err != nil {
		return err
	}
	f, err := os.Create(args[1])
	if err != nil {
		return err
	}
	defer f.Close()
	w := bufio.NewWriterSize(f, 1<<20)
	defer w.Flush()
	enc := json.NewEncoder(w)
	type cfgLine struct {
		Cfg    json.RawMessage   `json:"cfg"`
		Colors map[string][3]int `json:"colors"`
		Layout []string          `json:"layout"`
	}
	var cl []cfgLine
	for _, b := range batches {
		cl = append(cl, cfgLine{b.Cfg, b.Colors, b.Layout})
	}
	enc.Encode(map[string]interface{}{"ev": "cfgs", "cfgs": cl})
	for bi, b := range batches {
		var ac absCfg
		if err := json.Unmarshal(b.Cfg, &ac); err != nil {
			return err
		}
		conf, err := literalConfig(&ac, "")
		if err != nil {
			return err
		}
		conf.OpenRGB.Colors = config.Colors{White: col(b.Colors["white"]), Black: col(b.Colors["black"]), C: col(b.Colors["c"]),
			Unavailable: col(b.Colors["unavailable"]), Other: col(b.Colors["other"]), Active: col(b.Colors["active"]),
			ActiveExternal: col(b.Colors["active_external"])}
		names, err := ledNames(b.Layout)
		if err != nil {
			return err
		}
		silent := 0
		for _, walk := range b.Walks {
			if silent >= 3 {
				break // feedback keeps falling silent in this batch: three recorded lives are enough
			}
			ctrl := b.Ctrl
			if ctrl == "" {
				ctrl = "verif keyboard"
			}
			srv, err := newFakeORGB(ctrl, "/dev/"+b.Hidraw, names)
			if err != nil {
				return err
			}
			srv.mode = b.Server
			r := &devRun{in: make(chan *input.InputEvent), out: make(chan midi.Event, 8192), sigs: make(chan os.Signal, 64),
				done: make(chan string, 1)}
			midiIn := make(chan midi.Event)
			if b.Flood {
				midiIn = make(chan midi.Event, 65536) // deep enough for the senders to stay ahead of the device
			}
			di := input.NewDeviceInfoVerif("verif", "usb-verif/input0", b.Event, input.InputID{Bus: 3, Vendor: 1, Product: 2, Version: 1},
				[]evdev.EvType{evdev.EV_SYN, evdev.EV_KEY, evdev.EV_MSC, evdev.EV_LED, evdev.EV_REP})
			idev := input.Device{Name: "verif", DeviceType: input.KeyboardDevice, Handlers: []input.Handler{{Name: "", DeviceInfo: di}},
				AbsInfos: map[string]map[evdev.EvCode]evdev.AbsInfo{b.Event: {}}}
			devOut := r.out
			if b.SlowOutUs > 0 {
				devOut = r.tightOutput(1, time.Duration(b.SlowOutUs)*time.Microsecond)
			}
			d := device.NewDevice(idev, config.DeviceConfig{ConfigFile: "verif", ConfigType: "user", Config: conf}, devOut, midiIn,
				true, srv.Port, r.sigs)
			r.dev = &d
			go func() {
				defer func() {
					if p := recover(); p != nil {
						r.done <- fmt.Sprintf("panic: %v\n%s", p, debug.Stack())
					}
				}()
				r.dev.ProcessEvents(r.in)
				r.done <- ""
			}()
			active := false
			if !b.NoWait {
				active = waitFrames(srv, 0, 2, 8*time.Second)
			}
			start := ledOut{NoWait: b.NoWait, stepOut: stepOut{Ev: "start", C: bi + 1, O: [][]int{}, St: r.state()}, Frame: srv.lastFrame(), NFrames: srv.frameCount(),
				LedActive: active}
			if start.Frame == nil {
				start.Frame = [][3]int{}
			}
			enc.Encode(start)
			alive := true
			// MIDI-input messages as handed to the device: the fan-out hands the SAME message to every device, so a device
			// must leave it as it is
			var inRef []midi.Event
			var inCopy [][]byte
			for _, st := range walk {
				var res ledOut
				n0 := srv.frameCount()
				switch st.Ev {
				case "midiin":
					msg := make(midi.Event, len(st.Msg))
					for i, x := range st.Msg {
						msg[i] = byte(x)
					}
					res.stepOut = stepOut{Ev: "midiin", O: [][]int{}}
					res.MsgIn = st.Msg
					inRef, inCopy = append(inRef, msg), append(inCopy, append([]byte(nil), msg...))
					ms := []midi.Event{msg, {midi.TimingClock}} // the second send returns once the first is processed
					if b.AsyncMidi || b.Flood {
						ms = ms[:1]
					}
					for _, m := range ms {
						select {
						case midiIn <- m:
						case <-time.After(stepTimeout):
							res.Ev, res.Msg = "hang", "MIDI input not taken within 5s"
							alive = false
						}
					}
					res.O, res.Sg = r.drain()
					res.St = r.state()
				case "disconnect":
					stopFlood := make(chan struct{})
					if b.Flood {
						for g := 0; g < 12; g++ {
							go func(g int) {
								for i := 0; ; i++ {
									select {
									case midiIn <- midi.Event{byte(0x90 + g), byte(36 + i%24), byte(1 + i%100)}:
									case <-stopFlood:
										return
									}
								}
							}(g)
						}
						time.Sleep(20 * time.Millisecond)
					}
					t0 := time.Now()
					q0 := atomic.LoadInt64(&srv.reqs)
					so, _ := r.step(st.devInput)
					res.stepOut = so
					res.ReturnMs = time.Since(t0).Milliseconds()
					close(stopFlood)
					alive = false
					// the final (all red) frame is written just before the LED goroutine ends; the server may still have to read
					// it: wait until no further frame has arrived for 60 ms (at most one second)
					for t1, last, stable := time.Now(), srv.frameCount(), time.Now(); time.Since(t1) < time.Second; {
						time.Sleep(5 * time.Millisecond)
						if c := srv.frameCount(); c != last {
							last, stable = c, time.Now()
						} else if time.Since(stable) >= 60*time.Millisecond {
							break
						}
					}
					res.Leftover = deviceGoroutines()
					res.ReqAfter = atomic.LoadInt64(&srv.reqs) - q0
				default:
					var ok bool
					res.stepOut, ok = r.step(st.devInput)
					alive = alive && ok
				}
				res.NoWait = b.NoWait
				if st.Ev == "sleep" {
					time.Sleep(time.Duration(st.Raw) * time.Millisecond)
					continue
				}
				if st.Ev != "disconnect" && !b.NoWait {
					n0 = srv.frameCount()
					res.LedActive = waitFrames(srv, n0, 2, 2*time.Second)
					// frames the device had written before the step may still be on their way to the server (seen under heavy
					// load: two of them): the frame is taken only once two further frames have brought nothing new
					for round := 0; res.LedActive && round < 3; round++ {
						a := fmt.Sprint(srv.lastFrame())
						n1 := srv.frameCount()
						if !waitFrames(srv, n1, 2, 2*time.Second) || fmt.Sprint(srv.lastFrame()) == a {
							break
						}
					}
				}
				res.Frame = srv.lastFrame()
				if res.Frame == nil {
					res.Frame = [][3]int{}
				}
				res.NFrames = srv.frameCount()
				enc.Encode(res)
				if st.Ev != "disconnect" && !b.NoWait && !res.LedActive && b.Server == "" {
					// no frame within two seconds although feedback was running: recorded (the step's led_active is false);
					// the rest of this life would only wait two seconds per step
					silent++
					break
				}
				if !alive {
					break
				}
			}
			if alive {
				r.finish()
			}
			for i, m := range inRef {
				if string(m) != string(inCopy[i]) {
					enc.Encode(ledOut{stepOut: stepOut{Ev: "crash", O: [][]int{}, Msg: fmt.Sprintf(
						"the device modified a MIDI-input message it was handed (shared with every other device): %x became %x", inCopy[i], []byte(m))},
						Frame: [][3]int{}})
					break
				}
			}
			srv.Close()
		}
	}
	return nil
}
