//go:build verif

package main

import (
	"bufio"
	"context"
	"encoding/json"
	"fmt"
	"os"
	"path/filepath"
	"strings"
	"sync"
	"sync/atomic"
	"time"

	"github.com/gethiox/HIDI/internal/pkg/logger"
	"github.com/gethiox/HIDI/internal/pkg/midi/device/config"
)

func init() { extraCommands["watcher"] = cmdWatcher }

// number of "config change detected" log lines so far (the watcher logs one before each hand-off)
var detectLines int64

type watchOp struct {
	Op   string `json:"op"` // write | pwrite | trunc | pause | resume | cancel | sleep
	File string `json:"file,omitempty"`
}

type watchScenario struct {
	ID  int       `json:"id"`
	Ops []watchOp `json:"ops"`
	// Early: do not wait for the four watches before the operations start (a cancellation may land while the watcher is
	// still setting itself up).  Missing: one of the four directories that does not exist when the watcher starts.
	Early   bool   `json:"early"`
	Missing string `json:"missing"`
}

type watchLine struct {
	Ev        string   `json:"ev"`
	ID        int      `json:"id"`
	Writes    []string `json:"writes"`    // files written before cancellation, in order (barriers included)
	Cancelled bool     `json:"cancelled"` // the scenario cancelled before its end (no delivery requirement after that)
	Got       int      `json:"got"`       // notifications received before cancellation
	Late      bool     `json:"late"`      // the consumer was paused at some point
	Closed    bool     `json:"closed"`    // the notification stream ended after cancellation
	Watches   int      `json:"watches"`
	Expect    int      `json:"expect"`  // watches expected once established (-1: not waited for)
	Crashed   bool     `json:"crashed"` // written by the driver when the process was taken down during this scenario
	// AfterCancel: inotify watches still open after a shutdown during which the consumer did not read (-1: not measured)
	AfterCancel int `json:"after_cancel"`
	Msg       string   `json:"msg"`
}

func inotifyWatches() int {
	n := 0
	ents, _ := os.ReadDir("/proc/self/fdinfo")
	for _, e := range ents {
		b, err := os.ReadFile("/proc/self/fdinfo/" + e.Name())
		if err != nil {
			continue
		}
		n += strings.Count(string(b), "inotify wd:")
	}
	return n
}

var watchDirs = []string{"hidi-config/factory/gamepad", "hidi-config/factory/keyboard", "hidi-config/user/gamepad", "hidi-config/user/keyboard"}

func appendOnce(path string) error {
	f, err := os.OpenFile(path, os.O_WRONLY|os.O_APPEND, 0)
	if err != nil {
		return err
	}
	_, err = f.Write([]byte("#\n")) // exactly one write(2): one IN_MODIFY
	f.Close()
	return err
}

func runWatchScenario(root string, sc watchScenario) (watchLine, error) {
	line := watchLine{Ev: "watcher", ID: sc.ID, Writes: []string{}, AfterCancel: -1}
	files := map[string]bool{"hidi-config/user/keyboard/zz_barrier1.toml": true, "hidi-config/factory/gamepad/zz_barrier2.toml": true}
	for _, op := range sc.Ops {
		if op.Op == "write" || op.Op == "trunc" || op.Op == "pwrite" {
			files[op.File] = true
		}
	}
	for _, d := range watchDirs {
		os.MkdirAll(filepath.Join(root, d, "nested"), 0o777)
	}
	for f := range files {
		os.MkdirAll(filepath.Dir(filepath.Join(root, f)), 0o777)
		if err := os.WriteFile(filepath.Join(root, f), []byte("x = 1\n"), 0o666); err != nil {
			return line, err
		}
	}
	line.Expect = 4
	if sc.Missing != "" {
		os.RemoveAll(filepath.Join(root, sc.Missing))
		line.Expect = 3
	}
	before := inotifyWatches()
	ctx, cancel := context.WithCancel(context.Background())
	ch := config.DetectDeviceConfigChanges(ctx)
	if sc.Early {
		line.Expect = -1
	} else {
		deadline := time.Now().Add(5 * time.Second)
		for inotifyWatches()-before < line.Expect && time.Now().Before(deadline) {
			time.Sleep(time.Millisecond)
		}
		time.Sleep(2 * time.Millisecond)
	}
	line.Watches = inotifyWatches() - before
	var got int64
	var paused int32
	closed := make(chan struct{})
	var mu sync.Mutex
	go func() {
		for {
			if atomic.LoadInt32(&paused) == 1 {
				time.Sleep(200 * time.Microsecond)
				continue
			}
			select {
			case _, ok := <-ch:
				if !ok {
					close(closed)
					return
				}
				mu.Lock()
				got++
				mu.Unlock()
			case <-time.After(time.Millisecond):
			}
		}
	}()
	cancelled := false
	// drained: every event-raising toml write so far has had its log line, i.e. has left the kernel queue
	drained := true
	for _, op := range sc.Ops {
		switch op.Op {
		case "pwrite":
			// paced write: wait for the watcher's log line of this very write, so that the next write of the
			// same file cannot be merged with it by the kernel; recorded as the file followed by "SYNC"
			n0 := atomic.LoadInt64(&detectLines)
			if err := appendOnce(filepath.Join(root, op.File)); err != nil {
				return line, err
			}
			if !cancelled {
				line.Writes = append(line.Writes, op.File)
			}
			isToml := strings.HasSuffix(strings.ToLower(op.File), ".toml") && !strings.Contains(op.File, "/nested/")
			if cancelled || !drained || atomic.LoadInt32(&paused) == 1 || !isToml {
				if isToml {
					drained = false
				}
				break
			}
			deadline := time.Now().Add(3 * time.Second)
			for atomic.LoadInt64(&detectLines) == n0 && time.Now().Before(deadline) {
				time.Sleep(200 * time.Microsecond)
			}
			if atomic.LoadInt64(&detectLines) > n0 {
				line.Writes = append(line.Writes, "SYNC")
			} else {
				drained = false
			}
		case "write":
			drained = drained && (strings.Contains(op.File, "/nested/") || !strings.HasSuffix(strings.ToLower(op.File), ".toml"))
			if err := appendOnce(filepath.Join(root, op.File)); err != nil {
				return line, err
			}
			if !cancelled {
				line.Writes = append(line.Writes, op.File)
			}
		case "trunc": // in-place modification that leaves the file empty: open with O_TRUNC (one IN_MODIFY)
			drained = drained && (strings.Contains(op.File, "/nested/") || !strings.HasSuffix(strings.ToLower(op.File), ".toml"))
			fp := filepath.Join(root, op.File)
			if st, err := os.Stat(fp); err == nil && st.Size() == 0 {
				if err := appendOnce(fp); err != nil {
					return line, err
				}
				if !cancelled {
					line.Writes = append(line.Writes, op.File)
				}
			}
			f, err := os.OpenFile(fp, os.O_WRONLY|os.O_TRUNC, 0)
			if err != nil {
				return line, err
			}
			f.Close()
			if !cancelled {
				line.Writes = append(line.Writes, op.File)
			}
		case "pause":
			drained = false
			atomic.StoreInt32(&paused, 1)
			line.Late = true
		case "resume":
			atomic.StoreInt32(&paused, 0)
		case "cancel":
			if !cancelled {
				cancelled = true
				line.Cancelled = true
				mu.Lock()
				line.Got = int(got)
				mu.Unlock()
				cancel()
			}
		case "sleep":
			time.Sleep(2 * time.Millisecond)
		}
	}
	if cancelled && atomic.LoadInt32(&paused) == 1 {
		// shut down while the consumer is not reading (the application's consumer stops for good at shutdown): give
		// the watcher's goroutines time to finish - or to fall over - before the consumer looks again
		time.Sleep(300 * time.Millisecond)
		// "the watcher stops": its watches are gone although nobody reads the stream (up to 2 s more are granted)
		for dl := time.Now().Add(2 * time.Second); ; {
			line.AfterCancel = inotifyWatches()
			if line.AfterCancel == 0 || time.Now().After(dl) {
				break
			}
			time.Sleep(20 * time.Millisecond)
		}
	}
	atomic.StoreInt32(&paused, 0)
	if !cancelled {
		// two barriers: inotify preserves order, so once the second barrier's notification is in, everything
		// before it has been delivered (or was never going to be)
		for _, b := range []string{"hidi-config/user/keyboard/zz_barrier1.toml", "hidi-config/factory/gamepad/zz_barrier2.toml"} {
			if err := appendOnce(filepath.Join(root, b)); err != nil {
				return line, err
			}
			line.Writes = append(line.Writes, b)
		}
		// minimal number of notifications: one per maximal run of identical consecutive toml writes
		min, prev := 0, ""
		for _, w := range line.Writes {
			if strings.Contains(w, "/nested/") { // raises no event on the four watches
				continue
			}
			if w == "SYNC" {
				prev = w
				continue
			}
			if strings.HasSuffix(strings.ToLower(w), ".toml") && w != prev {
				min++
			}
			prev = w
		}
		deadline := time.Now().Add(10 * time.Second)
		for time.Now().Before(deadline) {
			mu.Lock()
			g := int(got)
			mu.Unlock()
			if g >= min {
				break
			}
			time.Sleep(time.Millisecond)
		}
		time.Sleep(150 * time.Millisecond) // a notification that should not exist would arrive now
		mu.Lock()
		line.Got = int(got)
		mu.Unlock()
		cancel()
	}
	select {
	case <-closed:
		line.Closed = true
	case <-time.After(10 * time.Second):
	}
	return line, nil
}

// verifh watcher <scenarios.json> <scratchdir> <out.ndjson>
func cmdWatcher(args []string) error {
	if len(args) != 3 {
		return fmt.Errorf("usage: verifh watcher <scenarios.json> <scratchdir> <out.ndjson>")
	}
	go func() {
		for m := range logger.Messages {
			if strings.Contains(string(m), "config change detected") {
				atomic.AddInt64(&detectLines, 1)
			}
		}
	}()
	raw, err := os.ReadFile(args[0])
	if err != nil {
		return err
	}
	var scs []watchScenario
	if err := json.Unmarshal(raw, &scs); err != nil {
		return err
	}
	f, err := os.Create(args[2])
	if err != nil {
		return err
	}
	defer f.Close()
	w := bufio.NewWriter(f)
	defer w.Flush()
	enc := json.NewEncoder(w)
	for _, sc := range scs {
		if p := os.Getenv("VERIFH_CUR"); p != "" { // which scenario is running, should the runtime abort the process
			w.Flush()
			b, _ := json.Marshal(watchLine{Ev: "watcher", ID: sc.ID, Writes: []string{}, Crashed: true, Cancelled: true, Watches: 4, Expect: 4})
			os.WriteFile(p, b, 0o666)
		}
		// the watcher uses paths relative to the working directory: one scenario at a time
		root := filepath.Join(args[1], fmt.Sprintf("w%d", sc.ID))
		os.MkdirAll(root, 0o777)
		if err := os.Chdir(root); err != nil {
			return err
		}
		l, err := runWatchScenario(root, sc)
		if err != nil {
			return err
		}
		enc.Encode(l)
		os.Chdir("/")
		os.RemoveAll(root)
	}
	return nil
}
