//go:build verif

package main

import (
	"bufio"
	"context"
	"encoding/json"
	"fmt"
	"math/rand"
	"os"
	"path/filepath"
	"strconv"
	"sync"

	"github.com/gethiox/HIDI/internal/pkg/input"
	"github.com/gethiox/HIDI/internal/pkg/logger"
	"github.com/gethiox/HIDI/internal/pkg/midi/device/config"
)

func init() { extraCommands["loader"] = cmdLoader }

type loaderCase struct {
	Ev      string                     `json:"ev"`
	P       map[string]map[string]bool `json:"p"`
	Type    string                     `json:"type"`
	Junk    string                     `json:"junk"`
	Missing []string                   `json:"missing"`
	Outcome string                     `json:"outcome"`
	Marker  int                        `json:"marker"`
	Msg     string                     `json:"msg,omitempty"`
}

var loaderSlots = []string{"user/id", "user/zero", "factory/id", "factory/zero"}
var loaderDirs = []string{"factory/gamepad", "factory/keyboard", "user/gamepad", "user/keyboard"}

func cfgText(marker int, bus, vendor, product, version int) string {
	return fmt.Sprintf(`collision_mode = "off"
exit_sequence = []
[identifier]
  bus = %d
  vendor = %d
  product = %d
  version = %d
[defaults]
  octave = %d
  semitone = 0
  channel = 1
  mapping = "Default"
  velocity = 64
[action_mapping]
[[mapping]]
  name = "Default"
  [[mapping.keys]]
    subhandler = ""
    [mapping.keys.map]
      KEY_A = "60"
`, bus, vendor, product, version, marker)
}

func runLoaderCase(root string, c *loaderCase, n int) {
	dir := filepath.Join(root, fmt.Sprintf("c%d", n))
	defer os.RemoveAll(dir)
	os.MkdirAll(dir, 0o777)
	missing := map[string]bool{}
	for _, m := range c.Missing {
		missing[m] = true
	}
	for _, d := range loaderDirs {
		if !missing[d] {
			os.MkdirAll(filepath.Join(dir, "hidi-config", d), 0o777)
		}
	}
	devID := input.InputID{Bus: 3, Vendor: 0x1234, Product: 0x5678, Version: 0x0111}
	write := func(rel, text string) {
		p := filepath.Join(dir, "hidi-config", rel)
		if _, err := os.Stat(filepath.Dir(p)); err != nil {
			return // directory is one of the missing ones
		}
		os.WriteFile(p, []byte(text), 0o666)
	}
	for class, slots := range c.P {
		for i, slot := range loaderSlots {
			if !slots[slot] {
				continue
			}
			marker := i + 1
			if class == "gamepad" {
				marker += 4
			}
			tier := "user"
			if i >= 2 {
				tier = "factory"
			}
			name := fmt.Sprintf("%s/%s/%d_cfg.toml", tier, class, marker)
			if i%2 == 0 {
				write(name, cfgText(marker, 3, 0x1234, 0x5678, 0x0111))
			} else {
				write(name, cfgText(marker, 0, 0, 0, 0))
			}
		}
	}
	for _, d := range loaderDirs {
		switch c.Junk {
		case "broken":
			write(d+"/zz_broken.toml", "collision_mode = \nthis is [not toml")
			write(d+"/00_broken.toml", "[[mapping]]\nname = 5\n")
		case "decoder_panic":
			// documents on which go-toml v2.0.3 panics (array-table child without parent, date for a number)
			write(d+"/00_orphan.toml", "[[mapping.keys]]\nsubhandler = \"\"\n[mapping.keys.map]\nKEY_A = \"1\"\n")
			write(d+"/zz_date.toml", "[open_rgb]\nwhite = 1979-05-27\n")
		case "txt":
			write(d+"/notes.txt", cfgText(99, 3, 0x1234, 0x5678, 0x0111))
			write(d+"/README", "hello")
		case "dotfiles":
			// non-TOML files whose names sort before every configuration (editor swap files, desktop metadata)
			write(d+"/.directory", "[Desktop Entry]\nIcon=folder\n")
			write(d+"/.0_default.toml.swp", "b0VIM 8.2")
			write(d+"/!first", "x")
			write(d+"/#tmp#", "y")
		case "hidden_dir":
			os.MkdirAll(filepath.Join(dir, "hidi-config", d, ".git", "objects"), 0o777)
			write(d+"/.git/config", "[core]\n")
			write(d+"/.git/objects/pack.txt", "z")
			os.MkdirAll(filepath.Join(dir, "hidi-config", d, "0_dir"), 0o777)
		case "odd_names":
			write(d+"/.toml", "x = [")
			write(d+"/a.toml.bak", cfgText(98, 3, 0x1234, 0x5678, 0x0111))
			write(d+"/toml", cfgText(97, 0, 0, 0, 0))
			write(d+"/ spaced .txt", "q")
		case "nested_broken":
			os.MkdirAll(filepath.Join(dir, "hidi-config", d, "sub", "deeper"), 0o777)
			write(d+"/sub/deeper/broken.toml", "x = [")
			write(d+"/sub/empty.toml", "")
		case "foreign":
			write(d+"/foreign.toml", cfgText(77, 3, 0x9999, 0x1, 0x1))
			// identifiers that are zero in part only are identifiers like any other: neither the device's nor the default
			write(d+"/zz_partial_bus.toml", cfgText(79, 6, 0, 0, 0))
			write(d+"/00_partial_version.toml", cfgText(80, 0, 0, 0, 0x0111))
			write(d+"/zz_partial_vendor.toml", cfgText(81, 3, 0x1234, 0, 0))
		case "nested_foreign":
			os.MkdirAll(filepath.Join(dir, "hidi-config", d, "sub"), 0o777)
			write(d+"/sub/foreign.toml", cfgText(78, 3, 0x9999, 0x2, 0x1))
		}
	}
	devType := map[string]input.DeviceType{"Keyboard": input.KeyboardDevice, "Joystick": input.JoystickDevice,
		"Mouse": input.MouseDevice, "Unknown": input.UnknownDevice}[c.Type]
	func() {
		defer func() {
			if p := recover(); p != nil {
				c.Outcome, c.Msg = "panic", fmt.Sprint(p)
			}
		}()
		if err := os.Chdir(dir); err != nil {
			fmt.Fprintln(os.Stderr, "verifh loader: cannot chdir:", err)
			os.Exit(2)
		}
		var wg sync.WaitGroup
		cfgs, err := config.LoadDeviceConfigs(context.Background(), &wg)
		if err != nil {
			c.Outcome, c.Msg = "loaderror", err.Error()
			return
		}
		dc, err := cfgs.FindConfig(devID, devType)
		if err != nil {
			c.Outcome, c.Msg = "error", err.Error()
			return
		}
		c.Outcome, c.Marker = "config", dc.Config.Defaults.Octave
	}()
	os.Chdir(root)
}

// verifh loader <mode: full|sample> <n> <seed> <scratchdir> <out.ndjson>
func cmdLoader(args []string) error {
	if len(args) != 5 {
		return fmt.Errorf("usage: verifh loader <full|sample> <n> <seed> <scratchdir> <out>")
	}
	go func() {
		for range logger.Messages {
		}
	}()
	n, _ := strconv.Atoi(args[1])
	seed, _ := strconv.ParseInt(args[2], 10, 64)
	root := args[3]
	os.MkdirAll(root, 0o777)
	f, err := os.Create(args[4])
	if err != nil {
		return err
	}
	defer f.Close()
	w := bufio.NewWriterSize(f, 1<<20)
	defer w.Flush()
	enc := json.NewEncoder(w)
	types := []string{"Keyboard", "Joystick", "Mouse", "Unknown"}
	junks := []string{"none", "broken", "decoder_panic", "txt", "nested_broken", "foreign", "nested_foreign", "dotfiles", "hidden_dir", "odd_names"}
	missings := [][]string{{}, {"factory/gamepad"}, {"factory/keyboard"}, {"user/gamepad"}, {"user/keyboard"},
		{"user/gamepad", "user/keyboard"}, {"factory/gamepad", "factory/keyboard", "user/gamepad", "user/keyboard"}}
	mk := func(bits int, t, j string, m []string) *loaderCase {
		p := map[string]map[string]bool{"keyboard": {}, "gamepad": {}}
		for i, s := range loaderSlots {
			p["keyboard"][s] = bits&(1<<i) != 0
			p["gamepad"][s] = bits&(1<<(i+4)) != 0
		}
		return &loaderCase{Ev: "case", P: p, Type: t, Junk: j, Missing: m}
	}
	count := 0
	run := func(c *loaderCase) {
		count++
		runLoaderCase(root, c, count)
		enc.Encode(c)
	}
	if args[0] == "full" {
		for bits := 0; bits < 256; bits++ {
			for _, t := range types {
				for _, j := range junks {
					for _, m := range missings {
						run(mk(bits, t, j, m))
					}
				}
			}
		}
		return nil
	}
	// systematic core: all 256 presence combinations x 4 types without junk, all junk and missing kinds on a diagonal
	for bits := 0; bits < 256; bits++ {
		for _, t := range types {
			run(mk(bits, t, "none", []string{}))
		}
	}
	rng := rand.New(rand.NewSource(seed))
	for i := 0; i < n; i++ {
		run(mk(rng.Intn(256), types[rng.Intn(2)+2*(rng.Intn(8)/7)], junks[rng.Intn(len(junks))], missings[(rng.Intn(10)/6)*(1+rng.Intn(len(missings)-1))]))
	}
	return nil
}
