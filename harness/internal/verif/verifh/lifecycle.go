//go:build verif

package main

import (
	"bufio"
	"encoding/json"
	"fmt"
	"os"
	"sync"
	"time"

	"github.com/gethiox/HIDI/internal/pkg/midi"

	"github.com/gethiox/HIDI/internal/pkg/logger"
	"github.com/gethiox/HIDI/internal/pkg/midi/device/config"
)

func init() { extraCommands["isolation"] = cmdIsolation }

type isoLine struct {
	Ev     string    `json:"ev"`
	Batch  int       `json:"batch"`
	Script int       `json:"script"`
	K      int       `json:"k"`
	Solo   [][][]int `json:"solo"` // per step: the messages emitted
	Conc   [][][]int `json:"conc"`
	Msg    string    `json:"msg"`
}

// runScript runs one device on the batch's configuration.  conf is ONE object shared by all devices of the batch, as in
// the application (FindConfig hands the same DeviceConfig - the same maps - to every device that uses that file).
func runScript(b *devBatch, ac *absCfg, conf config.Config, walk []devInput) ([][][]int, string) {
	r, err := newDevRun(conf, ac.Axinfo, b.Sub)
	if err != nil {
		return nil, err.Error()
	}
	var outs [][][]int
	alive := true
	for _, in := range walk {
		var res stepOut
		res, alive = r.step(in)
		outs = append(outs, res.O)
		if res.Ev == "crash" || res.Ev == "hang" {
			return outs, res.Ev + ": " + res.Msg
		}
		if !alive {
			break
		}
	}
	if alive {
		r.finish()
	}
	return outs, ""
}

// runShared runs the given walks at the same time on devices that all write into ONE output channel of capacity
// b.SharedOut, read by a single reader that takes b.SlowUs per message.  Per device the messages on its own MIDI channel
// (the walks begin with as many channel_up taps as the device's index) are returned as one pseudo-step.
func runShared(b *devBatch, ac *absCfg, conf config.Config, walks [][]devInput, idx []int) ([][][][]int, []string) {
	shared := make(chan midi.Event, b.SharedOut)
	per := make(map[int][][]int)
	var pmu sync.Mutex
	stop := make(chan struct{})
	readerDone := make(chan struct{})
	take := func(m midi.Event) {
		if len(m) == 0 {
			return
		}
		bb := make([]int, len(m))
		for i, x := range m {
			bb[i] = int(x)
		}
		pmu.Lock()
		per[int(m[0]&0x0f)] = append(per[int(m[0]&0x0f)], bb)
		pmu.Unlock()
	}
	go func() {
		defer close(readerDone)
		for {
			select {
			case m := <-shared:
				take(m)
				time.Sleep(time.Duration(b.SlowUs) * time.Microsecond)
			case <-stop:
				for {
					select {
					case m := <-shared:
						take(m)
					default:
						return
					}
				}
			}
		}
	}()
	msgs := make([]string, len(walks))
	var wg sync.WaitGroup
	for i, wk := range walks {
		wg.Add(1)
		go func(i int, wk []devInput) {
			defer wg.Done()
			r, err := newDevRunInto(conf, ac.Axinfo, b.Sub, 0, 0, shared)
			if err != nil {
				msgs[i] = err.Error()
				return
			}
			for _, in := range wk {
				if in.Ev == "disconnect" {
					break
				}
				var ev = r.event(0, 0, 0)
				switch in.Ev {
				case "press", "release":
					code, err := keyCode(in.K)
					if err != nil {
						msgs[i] = err.Error()
						return
					}
					v := int32(1)
					if in.Ev == "release" {
						v = 0
					}
					ev = r.event(1, code, v) // EV_KEY
				default:
					continue
				}
				if m := r.send(ev); m != "" {
					msgs[i] = m
					return
				}
			}
			close(r.in)
			select {
			case m := <-r.done:
				if m != "" {
					msgs[i] = "crash: " + m
				}
			case <-time.After(20 * time.Second):
				msgs[i] = "hang: ProcessEvents did not return within 20s of its input being closed"
			}
		}(i, wk)
	}
	wg.Wait()
	close(stop)
	<-readerDone
	out := make([][][][]int, len(walks))
	for i := range walks {
		out[i] = [][][]int{per[idx[i]]}
		if out[i][0] == nil {
			out[i][0] = [][]int{}
		}
	}
	return out, msgs
}

// verifh isolation <batches.json> <out.ndjson>: every walk of a batch is run alone, then all walks of the batch
// are run at the same time on as many devices; per walk both outputs are logged
func cmdIsolation(args []string) error {
	if len(args) != 2 {
		return fmt.Errorf("usage: verifh isolation <batches.json> <out.ndjson>")
	}
	go func() {
		for range logger.Messages {
		}
	}()
	raw, err := os.ReadFile(args[0])
	if err != nil {
		return err
	}
	var batches []devBatch
	if err := json.Unmarshal(raw, &batches); err != nil {
		return err
	}
	f, err := os.Create(args[1])
	if err != nil {
		return err
	}
	defer f.Close()
	w := bufio.NewWriter(f)
	defer w.Flush()
	enc := json.NewEncoder(w)
	for bi := range batches {
		b := &batches[bi]
		k := len(b.Walks)
		solo := make([][][][]int, k)
		conc := make([][][][]int, k)
		msgs := make([]string, k)
		var ac absCfg
		if err := json.Unmarshal(b.Cfg, &ac); err != nil {
			return err
		}
		conf, err := literalConfig(&ac, b.Sub)
		if err != nil {
			return err
		}
		if b.SharedOut > 0 {
			// device i plays on channel (default + i) % 16: its walk starts with i channel_up taps (the driver wrote them)
			idx := make([]int, k)
			for i := range b.Walks {
				idx[i] = (ac.DChan + i) % 16
			}
			conc, cm := runShared(b, &ac, conf, b.Walks, idx)
			for i := range b.Walks {
				s, sm := runShared(b, &ac, conf, b.Walks[i:i+1], idx[i:i+1])
				m := cm[i]
				if m == "" {
					m = sm[0]
				}
				enc.Encode(isoLine{Ev: "isolation", Batch: bi + 1, Script: i + 1, K: k, Solo: s[0], Conc: conc[i], Msg: m})
			}
			continue
		}
		// the devices side by side first (on a configuration object nobody has used yet), then each alone
		var wg sync.WaitGroup
		for i, wk := range b.Walks {
			wg.Add(1)
			go func(i int, wk []devInput) {
				defer wg.Done()
				var m string
				conc[i], m = runScript(b, &ac, conf, wk)
				if m != "" {
					msgs[i] = m
				}
			}(i, wk)
		}
		wg.Wait()
		for i, wk := range b.Walks {
			var m string
			solo[i], m = runScript(b, &ac, conf, wk)
			if msgs[i] == "" {
				msgs[i] = m
			}
		}
		for i := range b.Walks {
			enc.Encode(isoLine{Ev: "isolation", Batch: bi + 1, Script: i + 1, K: k, Solo: solo[i], Conc: conc[i], Msg: msgs[i]})
		}
	}
	return nil
}
