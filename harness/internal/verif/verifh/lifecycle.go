//go:build verif

package main

import (
	"bufio"
	"encoding/json"
	"fmt"
	"os"
	"sync"

	"github.com/gethiox/HIDI/internal/pkg/logger"
	"github.com/gethiox/HIDI/internal/pkg/midi/device/config"
)

func init() { extraCommands["isolation"] = cmdIsolation }

type isoLine struct {
	Ev     string    `json:"ev"`
	Batch  int       `json:"batch"`
	Script int       `json:"script"`
	K      int       `json:"k"`
	Solo   [][][]int `json:"solo"` // per step: the messages emitted
	Conc   [][][]int `json:"conc"`
	Msg    string    `json:"msg"`
}

// runScript runs one device on the batch's configuration.  conf is ONE object shared by all devices of the batch, as in
// the application (FindConfig hands the same DeviceConfig - the same maps - to every device that uses that file).
func runScript(b *devBatch, ac *absCfg, conf config.Config, walk []devInput) ([][][]int, string) {
	r, err := newDevRun(conf, ac.Axinfo, b.Sub)
	if err != nil {
		return nil, err.Error()
	}
	var outs [][][]int
	alive := true
	for _, in := range walk {
		var res stepOut
		res, alive = r.step(in)
		outs = append(outs, res.O)
		if res.Ev == "crash" || res.Ev == "hang" {
			return outs, res.Ev + ": " + res.Msg
		}
		if !alive {
			break
		}
	}
	if alive {
		r.finish()
	}
	return outs, ""
}

// verifh isolation <batches.json> <out.ndjson>: every walk of a batch is run alone, then all walks of the batch
// are run at the same time on as many devices; per walk both outputs are logged
func cmdIsolation(args []string) error {
	if len(args) != 2 {
		return fmt.Errorf("usage: verifh isolation <batches.json> <out.ndjson>")
	}
	go func() {
		for range logger.Messages {
		}
	}()
	raw, err := os.ReadFile(args[0])
	if err != nil {
		return err
	}
	var batches []devBatch
	if err := json.Unmarshal(raw, &batches); err != nil {
		return err
	}
	f, err := os.Create(args[1])
	if err != nil {
		return err
	}
	defer f.Close()
	w := bufio.NewWriter(f)
	defer w.Flush()
	enc := json.NewEncoder(w)
	for bi := range batches {
		b := &batches[bi]
		k := len(b.Walks)
		solo := make([][][][]int, k)
		conc := make([][][][]int, k)
		msgs := make([]string, k)
		var ac absCfg
		if err := json.Unmarshal(b.Cfg, &ac); err != nil {
			return err
		}
		conf, err := literalConfig(&ac, b.Sub)
		if err != nil {
			return err
		}
		// the devices side by side first (on a configuration object nobody has used yet), then each alone
		var wg sync.WaitGroup
		for i, wk := range b.Walks {
			wg.Add(1)
			go func(i int, wk []devInput) {
				defer wg.Done()
				var m string
				conc[i], m = runScript(b, &ac, conf, wk)
				if m != "" {
					msgs[i] = m
				}
			}(i, wk)
		}
		wg.Wait()
		for i, wk := range b.Walks {
			var m string
			solo[i], m = runScript(b, &ac, conf, wk)
			if msgs[i] == "" {
				msgs[i] = m
			}
		}
		for i := range b.Walks {
			enc.Encode(isoLine{Ev: "isolation", Batch: bi + 1, Script: i + 1, K: k, Solo: solo[i], Conc: conc[i], Msg: msgs[i]})
		}
	}
	return nil
}
