//go:build verif

package main

import (
	"bufio"
	"encoding/json"
	"fmt"
	"os"
	"sync"

	"github.com/gethiox/HIDI/internal/pkg/logger"
)

func init() { extraCommands["isolation"] = cmdIsolation }

type isoLine struct {
	Ev     string    `json:"ev"`
	Batch  int       `json:"batch"`
	Script int       `json:"script"`
	K      int       `json:"k"`
	Solo   [][][]int `json:"solo"` // per step: the messages emitted
	Conc   [][][]int `json:"conc"`
	Msg    string    `json:"msg"`
}

func runScript(b *devBatch, walk []devInput) ([][][]int, string) {
	var ac absCfg
	if err := json.Unmarshal(b.Cfg, &ac); err != nil {
		return nil, err.Error()
	}
	conf, err := literalConfig(&ac, b.Sub)
	if err != nil {
		return nil, err.Error()
	}
	r, err := newDevRun(conf, ac.Axinfo, b.Sub)
	if err != nil {
		return nil, err.Error()
	}
	var outs [][][]int
	alive := true
	for _, in := range walk {
		var res stepOut
		res, alive = r.step(in)
		outs = append(outs, res.O)
		if res.Ev == "crash" || res.Ev == "hang" {
			return outs, res.Ev + ": " + res.Msg
		}
		if !alive {
			break
		}
	}
	if alive {
		r.finish()
	}
	return outs, ""
}

// verifh isolation <batches.json> <out.ndjson>: every walk of a batch is run alone, then all walks of the batch
// are run at the same time on as many devices; per walk both outputs are logged
func cmdIsolation(args []string) error {
	if len(args) != 2 {
		return fmt.Errorf("usage: verifh isolation <batches.json> <out.ndjson>")
	}
	go func() {
		for range logger.Messages {
		}
	}()
	raw, err := os.ReadFile(args[0])
	if err != nil {
		return err
	}
	var batches []devBatch
	if err := json.Unmarshal(raw, &batches); err != nil {
		return err
	}
	f, err := os.Create(args[1])
	if err != nil {
		return err
	}
	defer f.Close()
	w := bufio.NewWriter(f)
	defer w.Flush()
	enc := json.NewEncoder(w)
	for bi := range batches {
		b := &batches[bi]
		k := len(b.Walks)
		solo := make([][][][]int, k)
		conc := make([][][][]int, k)
		msgs := make([]string, k)
		for i, wk := range b.Walks {
			solo[i], msgs[i] = runScript(b, wk)
		}
		var wg sync.WaitGroup
		for i, wk := range b.Walks {
			wg.Add(1)
			go func(i int, wk []devInput) {
				defer wg.Done()
				var m string
				conc[i], m = runScript(b, wk)
				if m != "" {
					msgs[i] = m
				}
			}(i, wk)
		}
		wg.Wait()
		for i := range b.Walks {
			enc.Encode(isoLine{Ev: "isolation", Batch: bi + 1, Script: i + 1, K: k, Solo: solo[i], Conc: conc[i], Msg: msgs[i]})
		}
	}
	return nil
}
