//go:build verif

package main

import (
	"bufio"
	"context"
	"encoding/json"
	"fmt"
	"os"
	"path/filepath"
	"runtime"
	"sort"
	"strings"
	"sync"
	"time"

	"github.com/gethiox/HIDI/internal/pkg/input"
	"github.com/gethiox/HIDI/internal/pkg/logger"
)

func init() { extraCommands["handlers"] = cmdHandlers }

type hmOp struct {
	Op string `json:"op"` // add | rm | mkdir | settle | cancel
	N  string `json:"n"`
}

type hmScenario struct {
	ID      int      `json:"id"`
	Initial []string `json:"initial"`
	Ops     []hmOp   `json:"ops"`
	// Reading: the consumer keeps reading after cancellation (false = it stops, as MonitorNewDevices does)
	Reading bool `json:"reading"`
}

type hmSeg struct {
	Pre []string   `json:"pre"`
	Ops []hmOp     `json:"ops"`
	Now []string   `json:"now"`
	Got [][]string `json:"got"`
}

type hmLine struct {
	Ev      string  `json:"ev"`
	ID      int     `json:"id"`
	Segs    []hmSeg `json:"segs"`
	Reading bool    `json:"reading"`
	Closed  bool    `json:"closed"`
	Leak    bool    `json:"leak"`
}

const hmDir = "/dev/input"

func hmList() []string {
	ents, _ := os.ReadDir(hmDir)
	out := []string{}
	for _, e := range ents {
		if !e.IsDir() { // directories are never handlers
			out = append(out, e.Name())
		}
	}
	sort.Strings(out)
	return out
}

func monitorGoroutines() int {
	buf := make([]byte, 1<<20)
	n := runtime.Stack(buf, true)
	return strings.Count(string(buf[:n]), "input.monitorNewHandlers")
}

func runHandlerScenario(sc hmScenario) hmLine {
	line := hmLine{Ev: "handlers", ID: sc.ID, Segs: []hmSeg{}, Reading: sc.Reading}
	ents, _ := os.ReadDir(hmDir)
	for _, e := range ents {
		os.RemoveAll(filepath.Join(hmDir, e.Name()))
	}
	for _, n := range sc.Initial {
		os.WriteFile(filepath.Join(hmDir, n), nil, 0o666)
	}
	const rate = 2 * time.Millisecond
	const settle = 120 * time.Millisecond
	ctx, cancel := context.WithCancel(context.Background())
	defer cancel()
	ch := input.MonitorNewHandlersVerif(ctx, rate)
	var mu sync.Mutex
	var got [][]string
	stop := make(chan struct{})
	closed := make(chan struct{})
	go func() {
		for {
			select {
			case b, ok := <-ch:
				if !ok {
					close(closed)
					return
				}
				mu.Lock()
				got = append(got, append([]string{}, b...))
				mu.Unlock()
			case <-stop:
				return
			}
		}
	}()
	seg := hmSeg{Pre: []string{}, Ops: []hmOp{}}
	for _, n := range sc.Initial {
		seg.Ops = append(seg.Ops, hmOp{Op: "add", N: n})
	}
	flush := func() {
		time.Sleep(settle)
		seg.Now = hmList()
		mu.Lock()
		seg.Got = got
		got = nil
		mu.Unlock()
		if seg.Got == nil {
			seg.Got = [][]string{}
		}
		line.Segs = append(line.Segs, seg)
		seg = hmSeg{Pre: seg.Now, Ops: []hmOp{}}
	}
	cancelled := false
	for _, op := range sc.Ops {
		switch op.Op {
		case "add":
			if _, err := os.Stat(filepath.Join(hmDir, op.N)); err == nil {
				continue
			}
			os.WriteFile(filepath.Join(hmDir, op.N), nil, 0o666)
			seg.Ops = append(seg.Ops, op)
		case "mkdir":
			os.MkdirAll(filepath.Join(hmDir, op.N), 0o777)
			seg.Ops = append(seg.Ops, hmOp{Op: "mkdir", N: op.N})
		case "rm":
			if _, err := os.Stat(filepath.Join(hmDir, op.N)); err != nil {
				continue
			}
			os.RemoveAll(filepath.Join(hmDir, op.N))
			seg.Ops = append(seg.Ops, op)
		case "settle":
			if !cancelled {
				flush()
			}
		case "cancel":
			if !cancelled {
				flush()
				cancelled = true
				if !sc.Reading {
					close(stop) // the consumer stops reading at cancellation, as MonitorNewDevices does
				}
				cancel()
			}
		}
	}
	if !cancelled {
		flush()
		if !sc.Reading {
			close(stop)
		}
		cancel()
	}
	if sc.Reading {
		select {
		case <-closed:
			line.Closed = true
		case <-time.After(5 * time.Second):
		}
	} else {
		time.Sleep(300 * time.Millisecond)
		line.Leak = monitorGoroutines() > 0
	}
	return line
}

// verifh handlers <scenarios.json> <out.ndjson>   (expects a private, writable /dev/input)
func cmdHandlers(args []string) error {
	if len(args) != 2 {
		return fmt.Errorf("usage: verifh handlers <scenarios.json> <out.ndjson>")
	}
	go func() {
		for range logger.Messages {
		}
	}()
	if err := os.MkdirAll(hmDir, 0o777); err != nil {
		return err
	}
	raw, err := os.ReadFile(args[0])
	if err != nil {
		return err
	}
	var scs []hmScenario
	if err := json.Unmarshal(raw, &scs); err != nil {
		return err
	}
	f, err := os.Create(args[1])
	if err != nil {
		return err
	}
	defer f.Close()
	w := bufio.NewWriter(f)
	defer w.Flush()
	enc := json.NewEncoder(w)
	for _, sc := range scs {
		base := monitorGoroutines()
		l := runHandlerScenario(sc)
		if base > 0 { // goroutines leaked by earlier scenarios are not this one's
			l.Leak = monitorGoroutines() > base
		}
		enc.Encode(l)
	}
	return nil
}
