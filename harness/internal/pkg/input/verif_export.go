//go:build verif

package input

import (
	"context"
	"time"

	"github.com/holoplot/go-evdev"
)

// NewDeviceInfoVerif builds a DeviceInfo with an event-node name (the field is unexported and is
// otherwise only filled from a real /dev/input node).  Verification harness only.
func NewDeviceInfoVerif(name, phys, event string, id InputID, caps []evdev.EvType) DeviceInfo {
	return DeviceInfo{ID: id, Name: name, Phys: phys, eventName: event, CapableTypes: caps}
}

// MonitorNewHandlersVerif exposes the unexported discovery front end.  Verification harness only.
func MonitorNewHandlersVerif(ctx context.Context, rate time.Duration) <-chan []string {
	return monitorNewHandlers(ctx, rate)
}
