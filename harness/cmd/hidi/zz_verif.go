//go:build verif

package main

import (
	"encoding/json"
	"fmt"
	"os"
)

// Entry points of the verification harness into package main (LoadHIDIConfig and
// updateHIDIConfiguration are unexported from the application's point of view).  The file name
// sorts after main.go so that flag.Parse() in main's init has already run.
//
//	HIDI_VERIF_OP=upkeep                  run updateHIDIConfiguration() in the current directory
//	HIDI_VERIF_OP=hidiconfig <file>...    LoadHIDIConfig on each file, one JSON result line each
func init() {
	op := os.Getenv("HIDI_VERIF_OP")
	if op == "" {
		return
	}
	go func() {
		for range loggerMessages() {
		}
	}()
	switch op {
	case "upkeep":
		err := updateHIDIConfiguration()
		if err != nil {
			fmt.Println("upkeep error:", err)
			os.Exit(3)
		}
		os.Exit(0)
	case "hidiconfig":
		enc := json.NewEncoder(os.Stdout)
		for _, path := range os.Args[1:] {
			enc.Encode(loadHIDIConfigGuarded(path))
		}
		os.Exit(0)
	}
	fmt.Fprintln(os.Stderr, "unknown HIDI_VERIF_OP", op)
	os.Exit(2)
}

type hidiConfigResult struct {
	Ev       string `json:"ev"`
	File     string `json:"file"`
	Outcome  string `json:"outcome"`
	Msg      string `json:"msg,omitempty"`
	Throttle int64  `json:"throttle_ns"`
	Disc     int64  `json:"discovery_ns"`
	Stab     int64  `json:"stabilization_ns"`
}

func loadHIDIConfigGuarded(path string) (r hidiConfigResult) {
	r = hidiConfigResult{Ev: "hidiconfig", File: path}
	defer func() {
		if p := recover(); p != nil {
			r.Outcome, r.Msg = "panic", fmt.Sprint(p)
		}
	}()
	c, err := LoadHIDIConfig(path)
	if err != nil {
		r.Outcome, r.Msg = "error", err.Error()
		return r
	}
	r.Outcome = "config"
	r.Throttle, r.Disc, r.Stab = int64(c.HIDI.EVThrottling), int64(c.HIDI.DiscoveryRate), int64(c.HIDI.StabilizationPeriod)
	return r
}
